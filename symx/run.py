"""Driver: explore shapes in parallel, replay, write evidence, decide exit code.

Exit codes: 0 held / only known findings; 1 replayed violation not listed in
known_findings.json; 3 inconclusive or harness error (never reported as pass).
"""
import json
import os
import random
import signal
import sys
import tempfile
import time

from . import core

VERIF = os.path.dirname(os.path.dirname(os.path.abspath(__file__)))
NPROC = int(os.environ.get("VERIF_JOBS", "0")) or min(16, os.cpu_count() or 4)


class Shape:
    """One scenario shape: fn(engine, **params) run symbolically / concretely."""

    def __init__(self, sid, fn, params=None, group=None, timeout=600, allow_no_pass=False, mode=None):
        self.mode = mode
        self.sid = sid
        self.fn = fn
        self.params = params or {}
        self.group = group or sid.split("/")[0]
        self.timeout = timeout
        self.allow_no_pass = allow_no_pass


class Check:
    def __init__(self, pid, tier, level="model_checking"):
        self.pid = pid
        self.tier = tier
        self.level = level
        self.seed = int(os.environ.get("VERIF_SEED", "0") or 0)
        self.shapes = []
        self.mode = "replay"
        self.install_shims = None  # run in each symbolic worker before the harness
        self.classify_exception = None  # (rec) -> "expected" | "violation" | None
        self.bounds = {}
        self.assumptions = []
        self.extra = {}  # extra coverage keys
        self.witness_per_shape = 2 if tier == "quick" else 6
        self.messages = []
        self.extra_failures = []  # (kind, text) appended by check-specific phases
        self.t0 = time.time()

    def add(self, sid, fn, **kw):
        params = kw.pop("params", None)
        if sid in getattr(self, "_sids", ()):
            return  # same name = same scenario (results are keyed by name)
        self.__dict__.setdefault("_sids", set()).add(sid)
        self.shapes.append(Shape(sid, fn, params, **kw))


def _die_with_parent():
    try:
        import ctypes
        ctypes.CDLL("libc.so.6", use_errno=True).prctl(1, signal.SIGKILL)  # PR_SET_PDEATHSIG
    except Exception:
        pass


class ShapeTimeout(BaseException):
    pass


def _alarm(signum, frame):
    raise ShapeTimeout()


# ---------------------------------------------------------------------------
def _worker_batch(check, idxs, log_path):
    """Symbolic worker: explores a batch of shapes sequentially (process start
    and copy-on-write faults are expensive in this sandbox, so they are
    amortised over a batch)."""
    os.setsid()
    _die_with_parent()
    fd = os.open(log_path, os.O_WRONLY | os.O_APPEND | os.O_CREAT, 0o644)

    def put(rec):
        os.write(fd, (json.dumps(rec) + "\n").encode())

    if not os.environ.get("SYMX_DEBUG"):
        devnull = os.open(os.devnull, os.O_WRONLY)
        os.dup2(devnull, 1)
        os.dup2(devnull, 2)
    try:
        if check.install_shims:
            check.install_shims()
        core.enable_coverage()
        import gc
        gc.collect()
        gc.freeze()
        signal.signal(signal.SIGALRM, _alarm)
        for idx in idxs:
            shape = check.shapes[idx]
            t0 = time.time()
            put({"k": "S", "shape": shape.sid})
            eng = core.Engine(sym=True, log_fd=fd, shape=shape.sid, mode=shape.mode or check.mode)
            signal.alarm(int(shape.timeout))
            try:
                core.explore(lambda e: shape.fn(e, **shape.params), eng)
            except ShapeTimeout:
                put({"k": "T", "shape": shape.sid, "msg": "shape timed out after %ss" % shape.timeout})
            except BaseException as ex:
                import traceback
                put({"k": "E", "shape": shape.sid, "crash": True, "msg": "worker: %r" % ex,
                     "tb": traceback.format_exc()[-2000:]})
            finally:
                signal.alarm(0)
            put({"k": "D", "shape": shape.sid, "wall": round(time.time() - t0, 2)})
    finally:
        os._exit(0)


def _spawn_concrete(jobs, quiet=True):
    r, w = os.pipe()
    pid = os.fork()
    if pid == 0:
        os.close(r)
        _die_with_parent()
        if quiet and not os.environ.get("SYMX_DEBUG"):
            devnull = os.open(os.devnull, os.O_WRONLY)
            os.dup2(devnull, 1)
            os.dup2(devnull, 2)
        try:
            for n, (shape, model) in enumerate(jobs):
                eng = core.Engine(sym=False, model=model, log_fd=w, shape=shape.sid)
                core.run_path(lambda e: shape.fn(e, **shape.params), eng)
        finally:
            os._exit(0)
    os.close(w)
    return pid, r


def _collect_concrete(pid, r, jobs, quiet=True):
    data = b""
    while True:
        chunk = os.read(r, 65536)
        if not chunk:
            break
        data += chunk
    os.close(r)
    os.waitpid(pid, 0)
    lines = [json.loads(x) for x in data.decode().splitlines() if x.strip()]
    out = list(lines[: len(jobs)])
    if len(out) < len(jobs):
        if len(jobs) == 1:
            return [{"k": "E", "crash": True, "msg": "concrete run produced no record"}]
        k = len(out)  # child died on job k: isolate it, then continue with the rest
        out += run_concrete_batch(jobs[k:k + 1], quiet)
        out += run_concrete_batch(jobs[k + 1:], quiet)
    return out


def run_concrete_batch(jobs, quiet=True):
    """Run harnesses on real ints/bytes without shims in one forked child."""
    if not jobs:
        return []
    pid, r = _spawn_concrete(jobs, quiet)
    return _collect_concrete(pid, r, jobs, quiet)


def run_concrete(shape, model, quiet=True):
    return run_concrete_batch([(shape, model)], quiet)[0]


def run_concrete_parallel(jobs):
    """[(shape, model)] -> [record], spread over NPROC forked children."""
    if not jobs:
        return []
    n = min(NPROC, len(jobs))
    chunks = [list(range(i, len(jobs), n)) for i in range(n)]
    procs = [(ix, _spawn_concrete([jobs[i] for i in ix])) for ix in chunks]
    out = [None] * len(jobs)
    for ix, (pid, r) in procs:
        recs = _collect_concrete(pid, r, [jobs[i] for i in ix])
        for i, rec in zip(ix, recs):
            out[i] = rec
    return out


def _explore_all(check):
    """Run every shape under the symbolic engine, NPROC batches at a time."""
    tmpdir = tempfile.mkdtemp(prefix="symx-%s-" % check.pid, dir=os.environ.get("VERIF_TMP") or None)
    order = list(range(len(check.shapes)))
    random.Random(check.seed).shuffle(order)
    nb = max(1, min(len(order), NPROC * 3))
    batches = [order[i::nb] for i in range(nb)]
    pending = list(range(nb))[::-1]
    running = {}
    logs = []
    while pending or running:
        while pending and len(running) < NPROC:
            bi = pending.pop()
            log_path = os.path.join(tmpdir, "%d.log" % bi)
            logs.append((bi, log_path))
            pid = os.fork()
            if pid == 0:
                _worker_batch(check, batches[bi], log_path)
                os._exit(0)
            budget = sum(check.shapes[i].timeout for i in batches[bi]) + 60
            running[pid] = (bi, time.time(), budget)
        done_any = False
        for pid in list(running):
            bi, start, budget = running[pid]
            rp, status = os.waitpid(pid, os.WNOHANG)
            if rp == 0:
                if time.time() - start > budget:
                    try:
                        os.killpg(pid, signal.SIGKILL)
                    except ProcessLookupError:
                        pass
                    os.waitpid(pid, 0)
                else:
                    continue
            done_any = True
            del running[pid]
            if os.environ.get("SYMX_PROGRESS"):
                sys.stderr.write("batch %d done after %.1fs\n" % (bi, time.time() - start))
        if not done_any:
            time.sleep(0.02)
    results = {}
    by_sid = {s.sid: i for i, s in enumerate(check.shapes)}
    for bi, log_path in logs:
        started = {}
        done = {}
        if os.path.exists(log_path):
            with open(log_path) as f:
                for line in f:
                    line = line.strip()
                    if not line:
                        continue
                    try:
                        rec = json.loads(line)
                    except ValueError:
                        continue
                    idx = by_sid.get(rec.get("shape"))
                    if idx is None:
                        continue
                    if rec["k"] == "S":
                        started[idx] = True
                        results.setdefault(idx, ([], 0.0))
                    elif rec["k"] == "D":
                        done[idx] = rec.get("wall", 0.0)
                        results[idx] = (results[idx][0], rec.get("wall", 0.0))
                        if os.environ.get("SYMX_PROGRESS"):
                            sys.stderr.write("%7.1fs %6d leaves  %s\n" % (rec.get("wall", 0.0), len(results[idx][0]), rec["shape"]))
                    else:
                        results.setdefault(idx, ([], 0.0))[0].append(rec)
            os.unlink(log_path)
        for idx in batches[bi]:
            if idx not in done:
                results.setdefault(idx, ([], 0.0))[0].append(
                    {"k": "E", "crash": True, "shape": check.shapes[idx].sid,
                     "msg": "worker died or was killed before finishing this shape"})
    try:
        os.rmdir(tmpdir)
    except OSError:
        pass
    return results


def load_known_findings(pid):
    path = os.path.join(VERIF, "known_findings.json")
    if not os.path.exists(path):
        return {}
    with open(path) as f:
        data = json.load(f)
    return {e["finding"]: e for e in data.get("findings", []) if e.get("property") == pid}


def finish(check):
    """Explore, replay, write evidence, print verdict, return exit code."""
    results = _explore_all(check)
    known = load_known_findings(check.pid)
    tot = {"P": 0, "A": 0, "V": 0, "E": 0, "U": 0, "T": 0}
    nq = 0
    st = 0.0
    decided = 0
    forks = 0
    cov = set()
    inconclusive = list(check.extra_failures)
    per_group = {}
    expected_exc = 0
    vjobs = []  # (shape, rec) violations to confirm
    wjobs = []  # (shape, rec) passing witnesses to replay
    for idx in sorted(results):
        shape = check.shapes[idx]
        recs, wall = results[idx]
        g = per_group.setdefault(shape.group, {"shapes": 0, "paths": 0, "pass": 0, "assumed": 0})
        g["shapes"] += 1
        n_pass = 0
        witnesses = []
        for rec in recs:
            k = rec.get("k")
            nq += rec.get("nq", 0)
            st += rec.get("st", 0.0)
            decided += rec.get("dec", 0)
            forks += rec.get("forks", 0)
            cov.update(rec.get("cov", ()))
            if k not in tot:
                continue
            if k in "PAVEU":
                g["paths"] += 1
            if k == "E" and not rec.get("crash") and check.classify_exception:
                verdict = check.classify_exception(rec)
                if verdict == "expected":
                    tot["A"] += 1
                    g["assumed"] += 1
                    expected_exc += 1
                    continue
                if verdict == "violation":
                    rec = dict(rec, k="V", msg="unexpected exception %s: %s" % (rec.get("exc"), rec.get("msg")))
                    k = "V"
            tot[k] += 1
            if k == "P":
                if rec.get("nchk", 1) > 0:
                    n_pass += 1
                g["pass"] += 1
                if rec.get("model") is not None:
                    witnesses.append(rec)
            elif k == "A":
                g["assumed"] += 1
            elif k == "V":
                if rec.get("model") is None:
                    inconclusive.append(("violation without model", shape.sid + ": " + str(rec.get("msg"))))
                else:
                    vjobs.append((shape, rec))
            elif k == "E":
                inconclusive.append(("unexpected exception under the engine",
                                     "%s: %s %s\n%s" % (shape.sid, rec.get("exc"), rec.get("msg"), rec.get("tb", ""))))
            elif k == "U":
                inconclusive.append(("unsupported operation", "%s: %s\n%s" % (shape.sid, rec.get("msg"), rec.get("tb", ""))))
            elif k == "T":
                inconclusive.append(("timeout", "%s: %s" % (shape.sid, rec.get("msg"))))
        if n_pass == 0 and not shape.allow_no_pass and not any(r.get("k") in "VEUT" for r in recs):
            inconclusive.append(("vacuous shape", "%s: no path reached the end of the harness with a check" % shape.sid))
        rnd = random.Random(check.seed + idx)
        rnd.shuffle(witnesses)
        for rec in witnesses[: check.witness_per_shape]:
            wjobs.append((shape, rec))
    # ---- concrete replays on the unshimmed code ----------------------------
    vjobs = vjobs[:200]
    crecs = run_concrete_parallel([(s, rec["model"]) for s, rec in vjobs + wjobs])
    replays = len(crecs)
    violations = []
    known_seen = {}
    samples = []
    for (shape, rec), crec in zip(vjobs, crecs[: len(vjobs)]):
        finding = (rec.get("info") or {}).get("finding") if isinstance(rec.get("info"), dict) else None
        reproduced = crec.get("k") == "V" or (
            crec.get("k") == "E" and not crec.get("crash")
            and (check.classify_exception is None or check.classify_exception(crec) == "violation"))
        if not reproduced:
            inconclusive.append(("counterexample did not reproduce on the unshimmed code",
                                 "%s: %s model=%s concrete=%s %s" % (shape.sid, rec.get("msg"), rec.get("model"),
                                                                      crec.get("k"), crec.get("msg"))))
            continue
        cfinding = (crec.get("info") or {}).get("finding") if isinstance(crec.get("info"), dict) else None
        finding = finding or cfinding
        if finding and finding in known:
            known_seen.setdefault(finding, (shape, rec, crec))
        else:
            violations.append((shape, rec, crec))
    for (shape, rec), crec in zip(wjobs, crecs[len(vjobs):]):
        if crec.get("k") == "V":
            cf = (crec.get("info") or {}).get("finding") if isinstance(crec.get("info"), dict) else None
            if cf and cf in known:
                known_seen.setdefault(cf, (shape, rec, crec))
            else:
                violations.append((shape, dict(rec, msg="(concrete witness) " + str(crec.get("msg"))), crec))
        elif crec.get("k") != "P":
            inconclusive.append(("engine self-check: symbolic path passed, concrete run did not",
                                 "%s model=%s concrete=%s %s %s" % (shape.sid, rec["model"], crec.get("k"),
                                                                     crec.get("msg"), crec.get("tb", ""))))
        if len(samples) < 6:
            samples.append({"shape": shape.sid, "path_witness": rec["model"], "symbolic": "P",
                            "concrete_replay": crec.get("k")})
    wall = time.time() - check.t0
    # ---- verdict -----------------------------------------------------------
    out_lines = []
    replay_dir = os.path.join(VERIF, "replays", check.pid)
    for fid, (shape, rec, crec) in known_seen.items():
        out_lines.append("KNOWN-FINDING: property=%s %s [%s] witness=%s" % (
            check.pid, known[fid].get("what", fid), fid, json.dumps(rec.get("model"))))
    seen_msgs = set()
    n = 0
    for (shape, rec, crec) in violations:
        key = (shape.group, str(rec.get("msg"))[:80])
        if key in seen_msgs or n >= 20:
            continue
        seen_msgs.add(key)
        os.makedirs(replay_dir, exist_ok=True)
        path = os.path.join(replay_dir, "violation-%d.json" % n)
        n += 1
        with open(path, "w") as f:
            json.dump({"property": check.pid, "shape": shape.sid, "model": rec.get("model"),
                       "message": rec.get("msg"), "info": rec.get("info"),
                       "concrete": {k: crec.get(k) for k in ("k", "msg", "exc", "tb", "info")},
                       "replay_cmd": "bin/check %s --replay %s" % (check.pid, path)}, f, indent=1, default=repr)
        out_lines.append("VIOLATION property=%s replay=%s" % (check.pid, path))
        out_lines.append("  shape=%s msg=%s model=%s" % (shape.sid, rec.get("msg"), json.dumps(rec.get("model"))))
    states = tot["P"] + tot["A"] + tot["V"] + tot["E"] + tot["U"]
    if not samples:
        samples.append({"note": "no passing path produced a witness", "totals": tot})
    coverage = {
        "states": states,
        "transitions": decided,
        "traces_validated_against_impl": replays,
        "samples": samples,
        "paths_passed": tot["P"],
        "paths_assumed_away_or_expected_refusal": tot["A"],
        "expected_exceptions": expected_exc,
        "shapes": len(check.shapes),
        "per_group": per_group,
        "solver_queries": nq,
        "solver_seconds": round(st, 2),
        "forks": forks,
        "functions_encoded": sorted(cov),
        "bounds": check.bounds,
        "known_findings_seen": sorted(known_seen),
        "inconclusive": [k for k, _ in inconclusive][:20],
        "exhaustive": False,
        "explanation": "states = leaves of the symbolic execution tree of the real code (each leaf stands for all integer "
                       "valuations satisfying its path condition); transitions = branch points and property checks "
                       "decided by z3; traces = concrete replays of z3 witnesses on the unshimmed code.",
    }
    coverage.update(check.extra)
    if check.level == "translation_validation":
        coverage.setdefault("programs", max(1, tot["P"]))
        coverage.setdefault("disagreements_checked", replays)
    evidence = {
        "property_id": check.pid,
        "tier": check.tier,
        "seed": check.seed,
        "level": check.level,
        "coverage": coverage,
        "assumptions": check.assumptions,
        "wall_s": round(wall, 2),
        "violations": len(violations),
    }
    os.makedirs(os.path.join(VERIF, "evidence"), exist_ok=True)
    with open(os.path.join(VERIF, "evidence", check.pid + ".json"), "w") as f:
        json.dump(evidence, f, indent=1, default=repr)
    for line in out_lines:
        print(line)
    for m in check.messages:
        print(m)
    print("%s %s: shapes=%d leaves=%d pass=%d assumed=%d viol=%d known=%d inconclusive=%d queries=%d solver=%.1fs replays=%d wall=%.1fs" % (
        check.pid, check.tier, len(check.shapes), states, tot["P"], tot["A"], len(violations), len(known_seen),
        len(inconclusive), nq, st, replays, wall))
    if os.environ.get("VERIF_DEBUG"):
        for (shape, rec, crec) in violations:
            print("DEBUG-VIOL %s | %s" % (shape.sid, str(rec.get("msg"))[:1500]))
        for kind, text in inconclusive:
            print("DEBUG-INC (%s) %s" % (kind, text[:1500].replace("\n", " \\ ")))
    if violations:
        return 1
    if inconclusive:
        for kind, text in inconclusive[:8]:
            print("INCONCLUSIVE (%s): %s" % (kind, text[:3000]))
        return 3
    if states == 0:
        print("INCONCLUSIVE: nothing explored")
        return 3
    return 0


def replay_file(check, path):
    with open(path) as f:
        data = json.load(f)
    shape = next(s for s in check.shapes if s.sid == data["shape"])
    rec = run_concrete(shape, data["model"], quiet=False)
    print(json.dumps(rec, indent=1, default=repr))
    if rec.get("k") == "V" or rec.get("k") == "E":
        print("VIOLATION property=%s replay=%s" % (check.pid, path))
        return 1
    return 0
