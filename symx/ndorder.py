"""Iteration order of unordered collections as an explicit, controllable choice.

C11 says the result of a rewrite does not depend on hash seeds or UUID draws.  The only way either can reach the result is
through the *iteration order of hash-ordered collections* (``set``/``frozenset``, gtirb's ``SetWrapper`` containers and
the iterators gtirb derives from them: ``module.symbols``, ``block.references``, ``*_blocks_on`` ...).  This module makes
that order a variable of the exploration:

* an import hook re-compiles every ``gtirb_rewriting`` module from the *current* source in /repo with one mechanical AST
  rewrite: the iterable of every ``for`` statement / comprehension clause, every starred expression and every positional
  argument of an order-propagating consumer (``sorted``, ``list``, ``next``, ``min`` ...) is wrapped in ``_nd_iter_(E,
  site, hint)``;
* ``_nd_iter_`` is the identity unless tracking is on.  With tracking on it records the static site whenever an unordered
  collection with at least two elements is iterated, and presents the elements in the order the active *plan* asks for
  (as found / reversed / rotated by one) - every such order is one a real run can observe for some hash seed / UUID draw /
  allocation pattern;
* a harness runs a scenario once to learn the sites it reaches, then once per (site, order) and demands the same result.

Ordered collections (lists, tuples, dicts, the insertion-ordered networkx graph behind ``gtirb.CFG``) are never touched.
"""
import ast
import importlib.abc
import importlib.machinery
import os
import sys

PREFIX = "gtirb_rewriting"

# attributes / methods of gtirb objects that return hash-ordered views (checked against the installed gtirb: SetWrapper,
# chains over SetWrappers, interval-tree lookups yielding sets, the symbol indexes)
GT_SET_ATTRS = {"symbols", "sections", "byte_intervals", "blocks", "byte_blocks", "code_blocks", "data_blocks", "cfg_nodes",
                "proxies", "references"}
GT_SET_METHODS = {"symbols_named", "byte_blocks_on", "byte_blocks_at", "code_blocks_on", "code_blocks_at", "data_blocks_on",
                  "data_blocks_at", "byte_intervals_on", "byte_intervals_at", "sections_on", "sections_at",
                  "byte_blocks_on_offset", "byte_blocks_at_offset", "code_blocks_on_offset", "code_blocks_at_offset",
                  "data_blocks_on_offset", "data_blocks_at_offset"}
CONSUMERS = {"sorted", "list", "tuple", "next", "iter", "min", "max", "enumerate", "zip", "map", "filter", "join", "extend",
             "update", "fromkeys", "chain", "from_iterable", "deque", "OrderedDict", "dict", "reversed", "sum", "any", "all"}


class State:
    def __init__(self):
        self.active = False
        self.plan = {}
        self.hits = {}

    def start(self, plan=None):
        self.active = True
        self.plan = dict(plan or {})
        self.hits = {}

    def stop(self):
        self.active = False
        hits, self.hits, self.plan = self.hits, {}, {}
        return hits


STATE = State()
_SETWRAPPER = None


def _setwrapper():
    global _SETWRAPPER
    if _SETWRAPPER is None:
        from gtirb.util import SetWrapper
        _SETWRAPPER = SetWrapper
    return _SETWRAPPER


def nd(E, site, hint):
    st = STATE
    if not st.active:
        return E
    is_iter = hasattr(E, "__next__")
    if isinstance(E, (set, frozenset, _setwrapper())):
        pass
    elif hint and (is_iter or not isinstance(E, (list, tuple, dict, str, bytes, bytearray))):
        pass
    else:
        return E
    try:
        items = list(E)
    except TypeError:
        return E
    if len(items) >= 2:
        st.hits[site] = max(st.hits.get(site, 0), len(items))
        mode = st.plan.get(site)
        if mode == "rev":
            items.reverse()
        elif mode == "rot":
            items = items[1:] + items[:1]
    return iter(items) if is_iter else items


class _Transformer(ast.NodeTransformer):
    def __init__(self, rel):
        self.rel = rel
        self.nsites = 0

    def _hint(self, e):
        if isinstance(e, ast.Attribute) and e.attr in GT_SET_ATTRS:
            return True
        if isinstance(e, ast.Call) and isinstance(e.func, ast.Attribute) and e.func.attr in GT_SET_METHODS:
            return True
        return False

    def _wrap(self, e):
        if isinstance(e, (ast.Constant, ast.List, ast.Tuple, ast.Dict, ast.ListComp, ast.DictComp, ast.JoinedStr)):
            return e
        if isinstance(e, ast.Call) and isinstance(e.func, ast.Name) and e.func.id in ("range", "_nd_iter_", "enumerate", "zip",
                                                                                     "sorted", "reversed"):
            return e  # their own arguments are wrapped; the result is ordered by construction
        self.nsites += 1
        site = "%s:%d:%d" % (self.rel, e.lineno, e.col_offset)
        return ast.copy_location(ast.Call(func=ast.Name(id="_nd_iter_", ctx=ast.Load()),
                                          args=[e, ast.Constant(site), ast.Constant(self._hint(e))], keywords=[]), e)

    def visit_For(self, node):
        self.generic_visit(node)
        node.iter = self._wrap(node.iter)
        return node

    def visit_comprehension(self, node):
        self.generic_visit(node)
        node.iter = self._wrap(node.iter)
        return node

    def visit_Starred(self, node):
        self.generic_visit(node)
        if isinstance(node.ctx, ast.Load):
            node.value = self._wrap(node.value)
        return node

    def visit_Call(self, node):
        self.generic_visit(node)
        f = node.func
        name = f.id if isinstance(f, ast.Name) else f.attr if isinstance(f, ast.Attribute) else None
        if name in CONSUMERS:
            node.args = [a if isinstance(a, ast.Starred) else self._wrap(a) for a in node.args]
        return node


def transform(source, path, rel):
    tree = ast.parse(source, path)
    tr = _Transformer(rel)
    tree = tr.visit(tree)
    imp = ast.parse("from symx.ndorder import nd as _nd_iter_").body[0]
    pos = 0
    body = tree.body
    if body and isinstance(body[0], ast.Expr) and isinstance(getattr(body[0], "value", None), ast.Constant) \
            and isinstance(body[0].value.value, str):
        pos = 1
    while pos < len(body) and isinstance(body[pos], ast.ImportFrom) and body[pos].module == "__future__":
        pos += 1
    body.insert(pos, imp)
    ast.fix_missing_locations(tree)
    return tree, tr.nsites


SITES = {}


class _Loader(importlib.machinery.SourceFileLoader):
    def get_code(self, fullname):  # never the byte-code cache: always the current source, transformed
        path = self.get_filename(fullname)
        data = self.get_data(path)
        return self.source_to_code(data, path)

    def source_to_code(self, data, path, *, _optimize=-1):
        rel = path.split("/gtirb_rewriting/", 1)[-1]
        tree, n = transform(data, path, rel)
        SITES[rel] = n
        return compile(tree, path, "exec", dont_inherit=True, optimize=_optimize)


class _Finder(importlib.abc.MetaPathFinder):
    def find_spec(self, fullname, path, target=None):
        if fullname != PREFIX and not fullname.startswith(PREFIX + "."):
            return None
        spec = importlib.machinery.PathFinder.find_spec(fullname, path, target)
        if spec is None or not isinstance(spec.loader, importlib.machinery.SourceFileLoader):
            return spec
        spec.loader = _Loader(spec.loader.name, spec.loader.path)
        return spec


def install():
    """Must run before gtirb_rewriting is imported."""
    if any(isinstance(f, _Finder) for f in sys.meta_path):
        return
    already = [m for m in sys.modules if m == PREFIX or m.startswith(PREFIX + ".")]
    if already:
        raise RuntimeError("ndorder.install() after import of %s" % already[:3])
    sys.meta_path.insert(0, _Finder())


def installed():
    return any(isinstance(f, _Finder) for f in sys.meta_path)
