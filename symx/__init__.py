from .core import *  # noqa
