"""Namespace shims: builtins replaced *per module namespace* so that C-level
builtins applied to proxies do not force concretisation.  Installed only inside
symbolic worker processes; concrete replays run without any of this."""
import ast
import builtins
import inspect
import io as _io
import textwrap
import types

import z3

from . import core
from .core import Rope, SBytes, SIO, SymBool, SymInt, Unsupported


# ---------------------------------------------------------------------------
def s_len(x):
    if isinstance(x, Rope):
        return x.length
    return builtins.len(x)


def s_bytearray(x=b""):
    if isinstance(x, Rope):
        return x
    if isinstance(x, SBytes):
        return SBytes(x)
    return builtins.bytearray(x)


def s_bytes(x=b"", *a):
    if isinstance(x, (Rope, SBytes)):
        return x
    return builtins.bytes(x, *a)


def sb_bytearray(x=b""):
    """bytearray for encoder modules: always the symbolic-capable SBytes."""
    return SBytes(x)


def s_ord(b):
    if isinstance(b, SBytes):
        if len(b) != 1:
            raise TypeError("ord() expected a character")
        return b[0]
    return builtins.ord(b)


class SRange:
    """range(a, b) used only for membership tests."""

    def __init__(self, a, b=None):
        if b is None:
            a, b = 0, a
        self.a, self.b = a, b

    def __contains__(self, v):
        return bool(v >= self.a) and bool(v < self.b)

    def __iter__(self):
        return iter(builtins.range(self.a, self.b))

    def __len__(self):
        return builtins.len(builtins.range(self.a, self.b))


def s_range(*a):
    if len(a) == 2 and not any(isinstance(x, SymInt) for x in a):
        return SRange(*a)
    return builtins.range(*a)


def sym_to_bytes(self, length=1, byteorder="big", *, signed=False):
    """int.to_bytes for SymInt: OverflowError exactly when CPython raises it."""
    lo, hi = (-(2 ** (8 * length - 1)), 2 ** (8 * length - 1)) if signed else (0, 2 ** (8 * length))
    if not (bool(self >= lo) and bool(self < hi)):
        raise OverflowError("int too big to convert" if bool(self >= 0) else "can't convert negative int to unsigned")
    # digits as fresh linear variables: sum(b_i * 256^i) == v (+ 256^n when negative)
    eng = core.ENG
    n0 = len(eng._dm)
    digs = [z3.Int("$b%d_%d" % (n0, i)) for i in builtins.range(length)]
    eng._dm[("tb", n0)] = (self.e, None, None)
    total = z3.IntVal(0)
    for i, dg in enumerate(digs):
        eng.solver.add(dg >= 0, dg <= 255)
        total = total + dg * (256 ** i)
    eng.solver.add(total == z3.If(self.e < 0, self.e + 256 ** length, self.e))
    items = [SymInt(dg) for dg in digs]
    if byteorder == "big":
        items.reverse()
    return SBytes(items)


SymInt.to_bytes = sym_to_bytes


class _IntMeta(type):
    def __instancecheck__(cls, inst):
        return isinstance(inst, (builtins.int, SymInt))


class IntShim(metaclass=_IntMeta):
    """Stands in for the name `int` in encoder modules."""

    def __new__(cls, x=0, *a):
        if isinstance(x, SymInt):
            return x
        if isinstance(x, SymBool):
            return core.Ite(x, 1, 0)
        return builtins.int(x, *a)

    @staticmethod
    def from_bytes(b, byteorder="big", *, signed=False):
        if not isinstance(b, SBytes):
            return builtins.int.from_bytes(b, byteorder, signed=signed)
        items = list(b.items)
        if all(isinstance(x, builtins.int) for x in items):
            return builtins.int.from_bytes(builtins.bytes(items), byteorder, signed=signed)
        if byteorder == "big":
            items.reverse()
        t = 0
        for i, x in enumerate(items):
            t = t + x * (256 ** i)
        if signed and items:
            n = len(items)
            t = core.Ite(t >= 2 ** (8 * n - 1), t - 2 ** (8 * n), t)
        return t


class _IoShim:
    """Stands in for the module name `io` (BytesIO over SBytes)."""

    @staticmethod
    def BytesIO(data=b""):
        if isinstance(data, SBytes):
            return SIO(data)
        return _io.BytesIO(data)

    def __getattr__(self, name):
        return getattr(_io, name)


def s_join(sep, parts):
    """sep.join(parts) for literal bytes/str separators over SBytes / tokens."""
    parts = list(parts)
    if isinstance(sep, (bytes, bytearray)):
        if any(isinstance(p, SBytes) for p in parts):
            out = SBytes()
            for i, p in enumerate(parts):
                if i and sep:
                    out += SBytes(sep)
                out += SBytes(p)
            return out
        return sep.join(parts)
    return sep.join(parts)


class _JoinRewriter(ast.NodeTransformer):
    def visit_Call(self, node):
        self.generic_visit(node)
        f = node.func
        if (isinstance(f, ast.Attribute) and f.attr == "join" and isinstance(f.value, ast.Constant)
                and isinstance(f.value.value, (bytes, str)) and len(node.args) == 1 and not node.keywords):
            return ast.copy_location(
                ast.Call(func=ast.Name(id="__symx_join__", ctx=ast.Load()), args=[f.value, node.args[0]], keywords=[]),
                node)
        return node


def rewrite_joins(owner, name):
    """Recompile owner.name (function or method) from its current source with
    `Constant.join(x)` rewritten to `__symx_join__(Constant, x)`."""
    raw = inspect.getattr_static(owner, name)
    fn = raw.__func__ if isinstance(raw, (staticmethod, classmethod)) else raw
    src = textwrap.dedent(inspect.getsource(fn))
    tree = _JoinRewriter().visit(ast.parse(src))
    ast.fix_missing_locations(tree)
    lineno = fn.__code__.co_firstlineno
    ast.increment_lineno(tree, lineno - 1)
    code = compile(tree, fn.__code__.co_filename, "exec")
    glb = fn.__globals__
    glb["__symx_join__"] = s_join
    ns = {}
    exec(code, glb, ns)
    new = ns[fn.__name__]
    if fn.__closure__:
        raise Unsupported("cannot rewrite closure " + name)
    new.__qualname__ = fn.__qualname__
    if isinstance(raw, staticmethod):
        new = staticmethod(new)
    elif isinstance(raw, classmethod):
        new = classmethod(new)
    setattr(owner, name, new)


class ConcretizingDict(dict):
    """Registry keyed by concrete ints that is indexed with a symbolic key:
    the lookup enumerates the feasible values (counted as enumeration)."""

    def _key(self, k):
        if isinstance(k, SymInt):
            return core.ENG.concretize(k)
        return k

    def get(self, k, d=None):
        return dict.get(self, self._key(k), d)

    def __getitem__(self, k):
        return dict.__getitem__(self, self._key(k))

    def __contains__(self, k):
        return dict.__contains__(self, self._key(k))


# ---------------------------------------------------------------------------
def install_dwarf():
    import leb128
    import gtirb_rewriting.dwarf._encodable as ENB
    import gtirb_rewriting.dwarf._encoders as ENC
    import gtirb_rewriting.dwarf.cfi as CFI
    import gtirb_rewriting.dwarf.expr as EXPR

    leb128.bytearray = sb_bytearray
    leb128.ord = s_ord
    ENC.range = s_range
    ENC.int = IntShim
    ENB.int = IntShim
    ENB.bytearray = sb_bytearray
    CFI.io = _IoShim()
    rewrite_joins(CFI._ExprEncoder, "encode")
    for storage in ENB._OpcodeEncodable._per_type_storage.values():
        if not isinstance(storage.opcodes, ConcretizingDict):
            storage.opcodes = ConcretizingDict(storage.opcodes)
    return {"leb128": ["bytearray", "ord"], "dwarf/_encoders.py": ["range", "int"],
            "dwarf/_encodable.py": ["int", "bytearray", "opcode registry -> ConcretizingDict"],
            "dwarf/cfi.py": ["io.BytesIO", "b''.join in _ExprEncoder.encode (AST rewrite)"]}


def install_gtirb_bytes():
    import gtirb.byteinterval as GB
    import gtirb_rewriting._modify.edit as E
    import gtirb_rewriting.intervalutils as IU
    import gtirb_rewriting.rewriting as RW

    for mod in (E, IU, RW, GB):
        mod.__dict__["len"] = s_len
    GB.__dict__["bytearray"] = s_bytearray
    return {"_modify/edit.py": ["len"], "intervalutils.py": ["len"], "rewriting.py": ["len"],
            "gtirb/byteinterval.py": ["len", "bytearray"]}


# ---------------------------------------------------------------------------
# determinism for in-process re-execution: identity-hashed gtirb nodes iterate
# in a different order on every re-execution; hash them by a counter-based UUID
# ---------------------------------------------------------------------------
_UUID_COUNTER = [0]


def _det_uuid4():
    import uuid
    _UUID_COUNTER[0] += 1
    return uuid.UUID(int=(0x5EED << 96) | _UUID_COUNTER[0])


def _reset_uuid():
    _UUID_COUNTER[0] = 0


def install_determinism():
    import uuid
    import gtirb
    import gtirb.node
    import gtirb_rewriting._modify.cache as C

    uuid.uuid4 = _det_uuid4
    gtirb.node.uuid4 = _det_uuid4
    gtirb.Node.__hash__ = lambda self: hash(self.uuid)
    serial = [0]

    def refnode_hash(self):
        h = self.__dict__.get("_symx_serial")
        if h is None:
            _UUID_COUNTER[0] += 1
            h = self.__dict__["_symx_serial"] = _UUID_COUNTER[0]
        return h

    C.RefNode.__hash__ = refnode_hash
    if _reset_uuid not in core.PATH_START_HOOKS:
        core.PATH_START_HOOKS.append(_reset_uuid)
    return {"uuid.uuid4 / gtirb.node.uuid4": "counter-based UUIDs (reset per path)",
            "gtirb.Node.__hash__": "hash(uuid) instead of identity", "RefNode.__hash__": "creation serial"}
