"""symx: a small fork-based symbolic executor for Python on top of z3.

The code under test runs unmodified.  Integers the property quantifies over
are `SymInt` proxies around z3 `Int` terms.  Whenever Python needs the truth
value of a `SymBool` the engine asks z3 which outcomes are feasible under the
path condition; when both are, the process forks (child: true side, parent:
false side, sequential DFS).  There is no replay, so identity-hash iteration
order inside gtirb cannot desynchronise the exploration.

Leaves append one JSON record to the run log:
  P  path finished and every check on it was proved
  A  path cut by an `assume`
  V  a check was falsifiable (model attached)
  E  unexpected exception from the code under test (model attached)
  U  operation the engine cannot encode (inconclusive)
"""
import json
import os
import sys
import time
import traceback

import z3


class Abort(BaseException):
    """Path assumed away."""


class Unsupported(BaseException):
    """Engine cannot encode the operation; the check is inconclusive."""


class Violation(BaseException):
    def __init__(self, msg, info=None):
        super().__init__(msg)
        self.msg = msg
        self.info = info or {}


QUERY_TIMEOUT_MS = 20000


class Nondeterminism(BaseException):
    """Re-execution took a different branch sequence than recorded."""


PATH_START_HOOKS = []  # callables run before every path (reset deterministic counters)


class Engine:
    """One exploration (symbolic) or one replay (concrete).

    mode 'replay' (default): paths are explored by re-executing the harness
    in-process along a recorded decision prefix (requires a deterministic
    harness; every replayed decision is fingerprint-checked).  mode 'fork':
    os.fork() at each two-sided branch (immune to nondeterminism, but fork is
    globally serialised and slow in this sandbox)."""

    def __init__(self, sym=True, model=None, log_fd=None, shape=None, mode="replay"):
        self.sym = sym
        self.model = model or {}
        self.log_fd = log_fd
        self.shape = shape
        self.mode = mode
        self.is_child = False
        self.nq = 0
        self.st = 0.0
        self.forks = 0
        self.decided = 0  # branch points / checks decided by the solver
        self.begin_path([])

    def begin_path(self, prefix):
        self.vars = {}  # name -> z3 const (declaration order kept)
        self.choices = {}
        self.notes = {}
        self.nchecks = 0
        self.prefix = prefix
        self.trail = []
        self.pending = []
        self._dm = {}
        if self.sym:
            self.solver = z3.Solver()
            self.solver.set("timeout", QUERY_TIMEOUT_MS)
        for h in PATH_START_HOOKS:
            h()

    # ---- solver plumbing -------------------------------------------------
    def _check(self, *extra):
        t0 = time.time()
        self.nq += 1
        if extra:
            self.solver.push()
            self.solver.add(*extra)
        r = self.solver.check()
        m = None
        if r == z3.sat:
            m = self.solver.model()
        if extra:
            self.solver.pop()
        if r == z3.unknown:
            # retry on a fresh solver with a longer timeout and other seeds before giving up
            for attempt in (1, 2, 3):
                s2 = z3.Solver()
                s2.set("timeout", QUERY_TIMEOUT_MS * (2 ** attempt))
                s2.set("random_seed", attempt)
                s2.add(*self.solver.assertions())
                s2.add(*extra)
                r = s2.check()
                if r != z3.unknown:
                    m = s2.model() if r == z3.sat else None
                    break
        self.st += time.time() - t0
        if r == z3.unknown:
            raise Unsupported("solver returned unknown: %s" % self.solver.reason_unknown())
        return r == z3.sat, m

    def _feasible(self, e):
        return self._check(e)[0]

    # ---- decisions -----------------------------------------------------------
    def _replaying(self):
        return len(self.trail) < len(self.prefix)

    def _next_recorded(self, kind, fp):
        rec = self.prefix[len(self.trail)]
        if rec[0] != kind or (fp is not None and rec[2] != fp):
            raise Nondeterminism("replay diverged at decision %d: recorded %r, now %r" % (
                len(self.trail), rec, (kind, fp)))
        self.trail.append(rec)
        return rec[1]

    # ---- variables ---------------------------------------------------------
    def int(self, name, lo=None, hi=None):
        """A fresh symbolic integer (lo <= v <= hi when given)."""
        if not self.sym:
            v = self.model[name]
            assert lo is None or v >= lo, (name, v)
            assert hi is None or v <= hi, (name, v)
            return v
        if name in self.vars:
            # self-composition: a second copy of a scenario is built over the same variables
            assert getattr(self, "reuse_vars", False), name
            return SymInt(self.vars[name])
        c = z3.Int(name)
        self.vars[name] = c
        if lo is not None:
            self.solver.add(c >= lo)
        if hi is not None:
            self.solver.add(c <= hi)
        return SymInt(c)

    def choose(self, name, options):
        """Enumerated (not symbolic) choice: one sub-tree per option."""
        options = list(options)
        if not self.sym:
            return options[self.model["#" + name]]
        assert name not in self.choices
        if len(options) == 1:
            self.choices[name] = 0
            return options[0]
        if name in PRESET:
            # the shape fixes this choice (a deeper exploration partitioned into one shape per first step)
            self.choices[name] = PRESET[name]
            return options[PRESET[name]]
        if self.mode == "fork":
            for i in range(len(options) - 1):
                if self._fork():
                    self.choices[name] = i
                    return options[i]
            self.choices[name] = len(options) - 1
            return options[-1]
        fp = "c:" + name
        if self._replaying():
            i = self._next_recorded("c", fp)
        else:
            for j in range(len(options) - 1, 0, -1):
                self.pending.append(self.trail + [("c", j, fp)])
            i = 0
            self.trail.append(("c", 0, fp))
        self.choices[name] = i
        return options[i]

    def _fork(self):
        """Plain fork: child returns True, parent (after child is done) False."""
        sys.stdout.flush()
        sys.stderr.flush()
        pid = os.fork()
        if pid == 0:
            self.is_child = True
            self.nq = 0
            self.st = 0.0
            self.forks = 0
            self.decided = 0
            return True
        self.forks += 1
        _, status = os.waitpid(pid, 0)
        code = os.waitstatus_to_exitcode(status)
        if code != 0:
            self._write({"k": "E", "crash": True, "msg": "child exited with %s" % code})
        return False

    def branch(self, e):
        e = z3.simplify(e)
        if z3.is_true(e):
            return True
        if z3.is_false(e):
            return False
        if self.mode == "replay":
            fp = e.hash()
            if self._replaying():
                val = self._next_recorded("b", fp)
                self.solver.add(e if val else z3.Not(e))
                return val
        t = self._feasible(e)
        f = self._feasible(z3.Not(e))
        self.decided += 1
        if not t and not f:
            raise Abort()
        if t and f:
            if os.environ.get("SYMX_TRACE"):
                import traceback as _tb
                fr = [x for x in _tb.extract_stack(limit=12) if "symx/core" not in x.filename][-3:]
                sys.stderr.write("FORK %s @ %s\n" % (str(e)[:200].replace("\n", " "),
                                                     " < ".join("%s:%d" % (x.filename.split("/")[-1], x.lineno) for x in reversed(fr))))
            if self.mode == "fork":
                val = self._fork()
            else:
                self.pending.append(self.trail + [("b", False, fp)])
                val = True
        else:
            val = t
        if self.mode == "replay":
            self.trail.append(("b", val, fp))
        self.solver.add(e if val else z3.Not(e))
        return val

    def concretize(self, x):
        """Enumerate the feasible values of a symbolic integer (counted as
        enumeration, not symbolic coverage)."""
        if not isinstance(x, SymInt):
            return x
        c = const_value(x)
        if c is not None:
            return c
        if self.mode == "fork":
            while True:
                sat, m = self._check()
                if not sat:
                    raise Abort()
                v = m.eval(x.e, model_completion=True).as_long()
                if self.branch(x.e == v):
                    return v
        fp = z3.simplify(x.e).hash()
        excluded = []
        if self._replaying():
            kind, val, _ = self.prefix[len(self.trail)]
            if kind == "v":
                self._next_recorded("v", fp)
                self.solver.add(x.e == val)
                return val
            excluded = list(self._next_recorded("nv", fp))
            self.trail.pop()
        for v in excluded:
            self.solver.add(x.e != v)
        sat, m = self._check()
        if not sat:
            raise Abort()
        v = m.eval(x.e, model_completion=True).as_long()
        self.pending.append(self.trail + [("nv", excluded + [v], fp)])
        self.trail.append(("v", v, fp))
        self.solver.add(x.e == v)
        return v

    def divmod_terms(self, e, d):
        """(q, r) with e == d*q + r, 0 <= r < d as fresh linear variables
        (floor semantics for d > 0); memoised per path."""
        key = (e.get_id(), d)
        hit = self._dm.get(key)
        if hit is not None:
            return hit[1], hit[2]
        n = len(self._dm)
        q = z3.Int("$q%d" % n)
        r = z3.Int("$r%d" % n)
        self.solver.add(e == d * q + r, r >= 0, r < d)
        self._dm[key] = (e, q, r)  # keep e alive so its id is not reused
        return q, r

    def assume(self, cond):
        if isinstance(cond, SymBool):
            if not self.sym:
                raise TypeError("SymBool in concrete mode")
            self.solver.add(cond.e)
            if not self._check()[0]:
                raise Abort()
        elif not cond:
            raise Abort()

    def must(self, cond):
        """Is cond implied by the path condition?  (no fork)"""
        if isinstance(cond, SymBool):
            e = z3.simplify(cond.e)
            if z3.is_true(e):
                return True
            if z3.is_false(e):
                return False
            return not self._feasible(z3.Not(e))
        return bool(cond)

    def may(self, cond):
        if isinstance(cond, SymBool):
            e = z3.simplify(cond.e)
            if z3.is_true(e):
                return True
            if z3.is_false(e):
                return False
            return self._feasible(e)
        return bool(cond)

    def check(self, cond, msg, **info):
        """Property assertion: violated iff path_condition & !cond is sat."""
        self.nchecks += 1
        if isinstance(cond, SymBool):
            e = z3.simplify(cond.e)
            self.decided += 1
            if z3.is_true(e):
                return  # decided by z3's simplifier
            sat, m = self._check(z3.Not(e))
            if sat:
                raise Violation(msg, dict(info, model=self._model_dict(m)))
            return
        if not cond:
            raise Violation(msg, dict(info))

    def ok(self, what=""):
        """Record that this path observed a specified outcome (counts as a check)."""
        self.nchecks += 1

    def fail(self, msg, **info):
        self.nchecks += 1
        raise Violation(msg, dict(info))

    def note(self, key, value):
        self.notes[key] = value

    # ---- models --------------------------------------------------------------
    def _model_dict(self, m=None):
        if not self.sym:
            return dict(self.model)
        if m is None:
            sat, m = self._check()
            if not sat:
                return None
        out = {}
        for name, c in self.vars.items():
            out[name] = m.eval(c, model_completion=True).as_long()
        for name, i in self.choices.items():
            out["#" + name] = i
        return out

    # ---- log -------------------------------------------------------------------
    def _write(self, rec):
        rec.setdefault("shape", self.shape)
        rec["nq"] = self.nq
        rec["st"] = round(self.st, 4)
        rec["forks"] = self.forks
        rec["dec"] = self.decided
        rec["nchk"] = self.nchecks
        cov = _COV.drain() if _COV else None
        if cov:
            rec["cov"] = cov
        self.nq = 0
        self.st = 0.0
        self.forks = 0
        self.decided = 0
        if self.log_fd is not None:
            os.write(self.log_fd, (json.dumps(rec) + "\n").encode())


ENG = None


def eng():
    return ENG


def _tb(limit=2500):
    return traceback.format_exc()[-limit:]


def run_path(fn, engine):
    """Run fn(engine) along one path and log the leaf.

    In fork mode forked children never return from here (os._exit)."""
    global ENG
    ENG = engine
    try:
        try:
            fn(engine)
            rec = {"k": "P"}
            if engine.sym:
                rec["model"] = engine._model_dict()
                rec["choices"] = dict(engine.choices)
            if engine.notes:
                rec["notes"] = engine.notes
            engine._write(rec)
        except Abort:
            engine._write({"k": "A", "choices": dict(engine.choices)})
        except Violation as v:
            info = dict(v.info)
            model = info.pop("model", None)
            if model is None and engine.sym:
                try:
                    model = engine._model_dict()
                except BaseException:
                    model = None
            engine._write(
                {"k": "V", "msg": v.msg, "info": _jsonable(info), "model": model,
                 "choices": dict(engine.choices), "tb": _tb(1500)}
            )
        except (Unsupported, Nondeterminism) as u:
            engine._write({"k": "U", "msg": "%s: %s" % (type(u).__name__, u), "tb": _tb(), "choices": dict(engine.choices)})
        except Exception as ex:  # unexpected exception of the code under test
            model = None
            if engine.sym:
                try:
                    model = engine._model_dict()
                except BaseException:
                    model = None
            engine._write(
                {"k": "E", "exc": type(ex).__name__, "msg": str(ex)[:500], "tb": _tb(),
                 "model": model, "choices": dict(engine.choices)}
            )
    finally:
        if engine.is_child:
            sys.stdout.flush()
            sys.stderr.flush()
            os._exit(0)


def explore(fn, engine, max_paths=200000):
    """All paths of fn under the engine (replay mode: in-process DFS)."""
    if engine.mode == "fork" or not engine.sym:
        run_path(fn, engine)
        return
    stack = [[]]
    n = 0
    while stack:
        prefix = stack.pop()
        engine.begin_path(prefix)
        run_path(fn, engine)
        stack.extend(engine.pending)
        n += 1
        if n >= max_paths:
            engine._write({"k": "T", "msg": "path budget of %d exhausted" % max_paths})
            return


def _jsonable(x):
    try:
        json.dumps(x)
        return x
    except Exception:
        return repr(x)


# ---------------------------------------------------------------------------
# function coverage of /repo/src (which real functions ran under the engine)
# ---------------------------------------------------------------------------
class _Coverage:
    TOOL = 3

    def __init__(self, prefix):
        self.prefix = prefix
        self.new = []
        mon = sys.monitoring
        try:
            mon.use_tool_id(self.TOOL, "symx")
        except ValueError:
            pass
        mon.register_callback(self.TOOL, mon.events.PY_START, self._start)
        mon.set_events(self.TOOL, mon.events.PY_START)

    def _start(self, code, offset):
        fn = code.co_filename
        if fn.startswith(self.prefix):
            self.new.append(fn[len(self.prefix):] + ":" + code.co_qualname)
        return sys.monitoring.DISABLE

    def drain(self):
        out, self.new = self.new, []
        return out


_COV = None


def enable_coverage(prefix=None):
    prefix = prefix or (os.environ.get("VERIF_REPO") or "/repo") + "/src/gtirb_rewriting/"
    global _COV
    if _COV is None and hasattr(sys, "monitoring"):
        _COV = _Coverage(prefix)


# ---------------------------------------------------------------------------
# values
# ---------------------------------------------------------------------------
def _z(x):
    if isinstance(x, SymInt):
        return x.e
    if isinstance(x, bool):
        return z3.IntVal(int(x))
    if isinstance(x, int):
        return z3.IntVal(x)
    return None


def _zb(x):
    if isinstance(x, SymBool):
        return x.e
    return z3.BoolVal(bool(x))


class SymBool:
    __slots__ = ("e",)

    def __init__(self, e):
        self.e = e

    def __bool__(self):
        return ENG.branch(self.e)

    def __invert__(self):
        return SymBool(z3.Not(self.e))

    def __repr__(self):
        return "SB(%s)" % z3.simplify(self.e)

    def __hash__(self):
        return hash(bool(self))

    def __eq__(self, o):
        return bool(self) == bool(o)

    def __ne__(self, o):
        return bool(self) != bool(o)

    def __int__(self):
        return int(bool(self))

    def __index__(self):
        return int(bool(self))

    def __lt__(self, o):
        return bool(self) < bool(o)

    def __le__(self, o):
        return bool(self) <= bool(o)

    def __gt__(self, o):
        return bool(self) > bool(o)

    def __ge__(self, o):
        return bool(self) >= bool(o)


def And(*xs):
    if any(isinstance(x, SymBool) for x in xs):
        return SymBool(z3.And(*[_zb(x) for x in xs]))
    return all(xs)


def Or(*xs):
    if any(isinstance(x, SymBool) for x in xs):
        return SymBool(z3.Or(*[_zb(x) for x in xs]))
    return any(xs)


def Not(x):
    if isinstance(x, SymBool):
        return SymBool(z3.Not(x.e))
    return not x


def Implies(a, b):
    return Or(Not(a), b)


def Ite(c, a, b):
    """Integer if-then-else without forking."""
    if isinstance(c, SymBool):
        return _mk(z3.If(c.e, _z(a), _z(b)))
    return a if c else b


PRESET = {}


def with_preset(fn, preset):
    """fn with some enumerated choices fixed by name (index into the options)."""
    def wrapped(eng, **params):
        PRESET.clear()
        PRESET.update(preset)
        try:
            return fn(eng, **params)
        finally:
            PRESET.clear()
    wrapped.__name__ = getattr(fn, "__name__", "fn")
    return wrapped


def is_sym(x):
    return isinstance(x, (SymInt, SymBool))


def _dm(e, d):
    """floor div / mod of a z3 term by a positive constant via fresh variables."""
    e = z3.simplify(e)
    if z3.is_int_value(e):
        v = e.as_long()
        return z3.IntVal(v // d), z3.IntVal(v % d)
    if d == 1:
        return e, z3.IntVal(0)
    return ENG.divmod_terms(e, d)


def _pow2(o):
    return o > 0 and (o & (o - 1)) == 0


def _mk(e):
    """Result of an arithmetic operation: a Python int when the term is a numeral (a SymInt wrapping a constant would hash
    differently from the equal int and be missed by dict lookups), a SymInt otherwise."""
    e = z3.simplify(e)
    if z3.is_int_value(e):
        return e.as_long()
    return SymInt(e)


class SymInt:
    __slots__ = ("e",)

    def __init__(self, e):
        self.e = e

    # arithmetic ------------------------------------------------------------
    def _bin(self, o, f):
        z = _z(o)
        if z is None:
            return NotImplemented
        return _mk(f(self.e, z))

    def _rbin(self, o, f):
        z = _z(o)
        if z is None:
            return NotImplemented
        return _mk(f(z, self.e))

    def __add__(self, o):
        return self._bin(o, lambda a, b: a + b)

    def __radd__(self, o):
        return self._rbin(o, lambda a, b: a + b)

    def __sub__(self, o):
        return self._bin(o, lambda a, b: a - b)

    def __rsub__(self, o):
        return self._rbin(o, lambda a, b: a - b)

    def __mul__(self, o):
        if isinstance(o, SymInt):
            raise Unsupported("symbolic * symbolic")
        if isinstance(o, (bytes, bytearray)):
            return Rope.rep(bytes(o), self)
        if isinstance(o, Rope):
            raise Unsupported("rope * symbolic")
        return self._bin(o, lambda a, b: a * b)

    def __rmul__(self, o):
        return self.__mul__(o)

    def __neg__(self):
        return _mk(-self.e)

    def __pos__(self):
        return self

    def __abs__(self):
        return _mk(z3.If(self.e >= 0, self.e, -self.e))

    def __invert__(self):
        return _mk(-self.e - 1)

    @staticmethod
    def _posconst(o, what):
        if isinstance(o, SymInt):
            e = z3.simplify(o.e)
            if z3.is_int_value(e):
                o = e.as_long()
            else:
                raise Unsupported("symbolic right operand of %s" % what)
        if not isinstance(o, int) or isinstance(o, bool):
            raise Unsupported("operand of %s: %r" % (what, o))
        return o

    def __floordiv__(self, o):
        o = self._posconst(o, "//")
        if o <= 0:
            raise Unsupported("// by non-positive constant")
        return _mk(_dm(self.e, o)[0])

    def __mod__(self, o):
        o = self._posconst(o, "%")
        if o <= 0:
            raise Unsupported("% by non-positive constant")
        return _mk(_dm(self.e, o)[1])

    def __divmod__(self, o):
        return self // o, self % o

    def __rshift__(self, o):
        o = self._posconst(o, ">>")
        return _mk(_dm(self.e, 1 << o)[0])

    def __lshift__(self, o):
        o = self._posconst(o, "<<")
        return _mk(self.e * (1 << o))

    def __and__(self, o):
        o = self._posconst(o, "&")
        if o == 0:
            return 0
        if o == -1:
            return self
        if o > 0 and (o & (o + 1)) == 0:  # 2^k - 1
            return _mk(_dm(self.e, o + 1)[1])
        if o < 0 and _pow2(-o):  # -2^k
            return _mk(self.e - _dm(self.e, -o)[1])
        if _pow2(o):  # single bit
            return _mk(_dm(_dm(self.e, o)[0], 2)[1] * o)
        if o > 0:
            # contiguous run of ones 2^a*(2^b-1)
            low = o & -o
            run = o // low
            if (run & (run + 1)) == 0:
                return _mk(_dm(_dm(self.e, low)[0], run + 1)[1] * low)
        raise Unsupported("& with mask %d" % o)

    __rand__ = __and__

    def __or__(self, o):
        o = self._posconst(o, "|")
        if o == 0:
            return self
        if o < 0 and _pow2(-o):
            return _mk(o + _dm(self.e, -o)[1])
        if _pow2(o):
            return _mk(self.e + o * (1 - _dm(_dm(self.e, o)[0], 2)[1]))
        raise Unsupported("| with %d" % o)

    __ror__ = __or__

    # comparisons -------------------------------------------------------------
    def _cmp(self, o, f):
        z = _z(o)
        if z is None:
            return NotImplemented
        return SymBool(f(self.e, z))

    def __lt__(self, o):
        return self._cmp(o, lambda a, b: a < b)

    def __le__(self, o):
        return self._cmp(o, lambda a, b: a <= b)

    def __gt__(self, o):
        return self._cmp(o, lambda a, b: a > b)

    def __ge__(self, o):
        return self._cmp(o, lambda a, b: a >= b)

    def __eq__(self, o):
        z = _z(o)
        if z is None:
            return False
        return SymBool(self.e == z)

    def __ne__(self, o):
        z = _z(o)
        if z is None:
            return True
        return SymBool(self.e != z)

    def __bool__(self):
        return ENG.branch(self.e != 0)

    def __hash__(self):
        return 0

    def __repr__(self):
        return "S(%s)" % z3.simplify(self.e)

    def __copy__(self):
        return self

    def __deepcopy__(self, memo):
        return self

    def bit_length(self):
        """int.bit_length: case split on the magnitude (one path per length)."""
        mag = abs(self)
        n = 0
        while bool(mag >= (1 << n)):
            n += 1
            if n > 4096:
                raise Unsupported("bit_length of an unbounded integer")
        return n


def const_value(x):
    """Python int if x is concrete or simplifies to a numeral, else None."""
    if isinstance(x, SymInt):
        e = z3.simplify(x.e)
        if z3.is_int_value(e):
            return e.as_long()
        return None
    return x


# ---------------------------------------------------------------------------
# ropes: byte strings of symbolic length made of (source, start, length) pieces
# ---------------------------------------------------------------------------
class Rope:
    __slots__ = ("segs",)

    def __init__(self, segs=()):
        self.segs = list(segs)

    @staticmethod
    def src(name, length):
        return Rope([(name, 0, length)])

    @staticmethod
    def lit(b):
        b = bytes(b)
        if not b:
            return Rope()
        return Rope([("lit:" + b.hex(), 0, len(b))])

    @staticmethod
    def rep(unit, count):
        """unit repeated count times; source 'rep:<hex>' is position-periodic."""
        return Rope([("rep:" + bytes(unit).hex(), 0, count * len(unit))])

    @staticmethod
    def coerce(o):
        if isinstance(o, Rope):
            return o
        if isinstance(o, (bytes, bytearray)):
            return Rope.lit(o)
        raise TypeError("cannot make a rope from %r" % type(o))

    def __len__(self):
        raise TypeError("len() of a Rope: use symx.slen")

    @property
    def length(self):
        t = 0
        for _, _, ln in self.segs:
            t = t + ln
        return t

    def __bool__(self):
        return bool(self.length != 0)

    def __add__(self, o):
        return Rope(self.segs + Rope.coerce(o).segs)

    def __radd__(self, o):
        return Rope(Rope.coerce(o).segs + self.segs)

    def __iadd__(self, o):
        return self + o

    def __mul__(self, n):
        if isinstance(n, int):
            return Rope(self.segs * n)
        raise Unsupported("rope * symbolic")

    def cut(self, pos):
        """(left, right) split at pos, clamped to [0, len] like slicing."""
        left, right = [], []
        cum = 0
        done = False
        for s, st, ln in self.segs:
            if done:
                right.append((s, st, ln))
                continue
            if pos <= cum:
                right.append((s, st, ln))
                done = True
                continue
            if pos >= cum + ln:
                left.append((s, st, ln))
                cum = cum + ln
                continue
            k = pos - cum
            left.append((s, st, k))
            right.append((s, st + k, ln - k))
            done = True
        return Rope(left), Rope(right)

    def __getitem__(self, sl):
        if not isinstance(sl, slice) or sl.step is not None:
            raise Unsupported("rope indexing with %r" % (sl,))
        r = self
        if sl.stop is not None:
            if isinstance(sl.stop, int) and sl.stop < 0 or isinstance(sl.start, int) and sl.start < 0:
                raise Unsupported("negative rope slice")
            r, _ = r.cut(sl.stop)
        if sl.start is not None:
            _, r = r.cut(sl.start)
        return r

    def __repr__(self):
        return "Rope(%r)" % (self.segs,)

    def __copy__(self):
        return Rope(self.segs)

    def __deepcopy__(self, memo):
        return Rope(self.segs)

    def materialize(self, sources):
        """Concrete bytes given {source name: bytes}; all bounds must be ints."""
        out = bytearray()
        for s, st, ln in self.segs:
            if s.startswith("lit:"):
                data = bytes.fromhex(s[4:])
                out += data[st:st + ln]
            elif s.startswith("rep:"):
                unit = bytes.fromhex(s[4:])
                for i in range(ln):
                    out.append(unit[(st + i) % len(unit)])
            else:
                data = sources[s]
                assert st + ln <= len(data), (s, st, ln, len(data))
                out += data[st:st + ln]
        return bytes(out)


def slen(x):
    if isinstance(x, Rope):
        return x.length
    return len(x)


def rope_equal_check(engine, got, exp, msg, **info):
    """Check (as a property) that two ropes denote the same bytes.

    Lock-step walk; zero-length pieces and length relations are case splits
    (forks), positional equality inside a shared source is a solver check.
    'rep:' sources are periodic: positions compare modulo the unit length.
    'lit:' pieces are compared by content."""
    a = [list(s) for s in got.segs]
    b = [list(s) for s in exp.segs]
    i = j = 0

    def skip_empty(lst, k):
        while k < len(lst) and bool(lst[k][2] == 0):
            k += 1
        return k

    while True:
        i = skip_empty(a, i)
        j = skip_empty(b, j)
        if i == len(a) or j == len(b):
            break
        s1, st1, l1 = a[i]
        s2, st2, l2 = b[j]
        if s1.startswith("lit:") and s2.startswith("lit:") and s1 != s2:
            # compare literal bytes: bounds of literals are concrete in practice
            c1, c2 = const_value(st1), const_value(st2)
            n1, n2 = const_value(l1), const_value(l2)
            if None in (c1, c2, n1, n2):
                raise Unsupported("symbolic slice of a literal")
            d1 = bytes.fromhex(s1[4:])[c1:c1 + n1]
            d2 = bytes.fromhex(s2[4:])[c2:c2 + n2]
            n = min(len(d1), len(d2))
            if d1[:n] != d2[:n]:
                engine.fail(msg + ": literal bytes differ", got=repr(got), exp=repr(exp), **info)
            a[i] = [s1, c1 + n, n1 - n]
            b[j] = [s2, c2 + n, n2 - n]
            continue
        if s1 != s2:
            engine.fail(msg + ": source %s where %s expected" % (s1, s2), got=repr(got), exp=repr(exp), **info)
        if s1.startswith("rep:"):
            unit = len(s1[4:]) // 2
            engine.check((st1 - st2) % unit == 0 if unit > 1 else True,
                         msg + ": padding phase", got=repr(got), exp=repr(exp), **info)
        else:
            engine.check(st1 == st2, msg + ": start of %s" % s1, got=repr(got), exp=repr(exp), **info)
        if bool(l1 == l2):
            i += 1
            j += 1
        elif bool(l1 < l2):
            b[j] = [s2, st2 + l1, l2 - l1]
            i += 1
        else:
            a[i] = [s1, st1 + l2, l1 - l2]
            j += 1
    i = skip_empty(a, i)
    j = skip_empty(b, j)
    if i != len(a) or j != len(b):
        engine.fail(msg + ": length differs", got=repr(got), exp=repr(exp), **info)


# ---------------------------------------------------------------------------
# short byte strings of concrete length with symbolic byte values
# ---------------------------------------------------------------------------
class SBytes:
    def __init__(self, items=()):
        if isinstance(items, SBytes):
            items = items.items
        elif isinstance(items, (bytes, bytearray)):
            items = list(items)
        elif isinstance(items, int) and not isinstance(items, bool):
            items = [0] * items
        self.items = list(items)

    def append(self, b):
        self.items.append(b)

    def extend(self, o):
        self.items.extend(SBytes(o).items)

    def __len__(self):
        return len(self.items)

    def __iter__(self):
        return iter(self.items)

    def __getitem__(self, i):
        if isinstance(i, slice):
            return SBytes(self.items[i])
        return self.items[i]

    def __add__(self, o):
        return SBytes(self.items + SBytes(o).items)

    def __iadd__(self, o):
        self.items += SBytes(o).items
        return self

    def __radd__(self, o):
        return SBytes(SBytes(o).items + self.items)

    def __eq__(self, o):
        if not isinstance(o, (SBytes, bytes, bytearray)):
            return False
        o = SBytes(o)
        if len(o) != len(self):
            return False
        return And(*[a == b for a, b in zip(self.items, o.items)]) if self.items else True

    def __ne__(self, o):
        return Not(self.__eq__(o))

    def __hash__(self):
        return 0

    def __repr__(self):
        return "SBytes(%r)" % (self.items,)

    def concrete(self, model_eval=None):
        return bytes(int(x) for x in self.items)


class SIO:
    """io.BytesIO look-alike over SBytes (read / tell only)."""

    def __init__(self, data=b""):
        self.data = SBytes(data)
        self.pos = 0

    def read(self, n=-1):
        if n is None or n < 0:
            n = len(self.data) - self.pos
        r = self.data[self.pos:self.pos + n]
        self.pos += len(r)
        return r

    def tell(self):
        return self.pos

    def write(self, b):
        self.data += SBytes(b)
        return len(SBytes(b))

    def getvalue(self):
        return self.data
