#!/usr/bin/env python3
"""Regenerates MANIFEST.json from the table below (kept in one place so the
manifest stays valid while checks are added)."""
import json
import os

HERE = os.path.dirname(os.path.dirname(os.path.abspath(__file__)))
props = [json.loads(l) for l in open(os.path.join(HERE, "properties.jsonl"))]

MC = "model_checking"
TV = "translation_validation"

CHECKS = {
    "C14": dict(
        level=MC, design="DESIGN.md section 6, C14",
        text="Bounded symbolic model checking of the real dwarf/* code: every operand is a z3 integer, every path of "
             "constructor/encode/decode/parse is explored and each path's assertions (agreement with an independent "
             "transcription of the DWARF v4 encoding tables, round trip, consumed length, range refusal, shortest "
             "make_const_op encoding) are decided by z3 for all operand values within the stated magnitude bound; "
             "z3 witnesses of every shape are replayed on the unshimmed code.",
        note="Bounds: LEB128 operands |v| <= 2^21 (quick) / 2^70 (thorough), fixed-width operands 2 bits beyond their "
             "range, nested expressions <= 1 (quick) / 2 (thorough) operations, arbitrary-buffer decode with 5/11 symbolic "
             "bytes after each of the 256 first bytes. Trusted: symx engine and its namespace shims (validated per run by "
             "concrete replay), z3, the reference tables in oracle/dwarf_ref.py, leb128 (executed, third party).",
        technique="symbolic execution of the real Python code (symx, in-process replay DFS) + z3 LIA queries per path",
    ),
}

CHECKS["C15"] = dict(
    level=MC, design="DESIGN.md section 6, C15",
    text="Bounded symbolic model checking of the real evaluate_cfi_directives: canonical directive prefixes establish every "
         "state shape (CFA unset/register+offset/expression, 0-2 register rules of every kind, initial vs current, save stack "
         "depth 0-2, personality/LSDA, closed procedure) with all register numbers, offsets, columns, addresses and "
         "displacements as z3 integers; then 1-2 (quick) / up to 3 (thorough) arbitrary directives from the full supported "
         "alphabet, well- or ill-formed. Every yielded state, its location, the exception type of ill-formed sequences and "
         "the independence of copies are compared with an independent reference interpreter on every path.",
    note="Bounds: <= 3 distinct registers per row, stack depth <= 3, 1-2 blocks, escape operands one LEB128 byte, pointer "
         "encodings enumerated. One step from every enumerated state shape covers longer sequences only as far as their "
         "states have one of those shapes. Trusted: symx, z3, oracle/cfi_ref.py; ABI return column/byte order/pointer size "
         "are inputs.",
    technique="symbolic execution of the real Python code (symx replay DFS) + z3 LIA; differential against a reference interpreter",
)

_SRH_NOTE = ("Bounds: x86-64 ELF layouts of <= 4 blocks per section (code/data mixes, every terminator kind, 2 functions, "
             "interleaved functions, label-less blocks, gaps and unowned tails), 1-3 modifications per scenario from "
             "insert_at/replace_at/delete_at (+retarget_to_proxy) at every atom boundary, patch bodies from a fixed vocabulary "
             "assembled by the real mcasm; every atom length, gap, address, displacement and raw patch length is a z3 integer "
             "(no numeric bound; code atoms 1..15 bytes). Outside: alignment padding (C10), relayout by gtirb_layout when "
             "sections would overlap, scope-based registration (C07). C01, C02, C03, C05 and C06 run the same scenarios on an ARM64 ELF module as well (fixed instruction length 4; patches that have an ARM64 rendering), PE layouts in the thorough tier. Trusted: symx + shims (validated by "
             "concrete replay of a witness of every path with expensive_assertions on), z3, oracle/listing.py, capstone for "
             "instruction lengths inside patches, the assembler for patch bytes.")
_SRH_TECH = "symbolic execution of the real RewritingContext.apply() pipeline (symx) + z3 LIA; differential against a listing model"
CHECKS["C01"] = dict(level=MC, design="DESIGN.md section 6, C01", note=_SRH_NOTE, technique=_SRH_TECH,
    text="Bounded symbolic model checking of the real rewrite pipeline: module sizes/offsets are z3 integers and byte "
         "contents are ropes of per-instruction sources, so on every path the section bytes after apply() are compared, for "
         "all sizes at once, with the listing model's rope (originals minus deleted atoms plus each patch once at its slot, "
         "registration order at equal offsets); any exception other than the library's own overlap assertion is a violation.")
CHECKS["C02"] = dict(level=MC, design="DESIGN.md section 6, C02", note=_SRH_NOTE, technique=_SRH_TECH,
    text="Same exploration as C01; for every symbol (start, at_end, several per block, patch-defined, temporary) z3 decides "
         "that its listing position address(referent)+(size if at_end) equals the label's position in the edited listing "
         "model, that labels of wholly deleted blocks slid to the next block (or to a module proxy under retarget_to_proxy), "
         "and that no symbol refers to a block outside the module; no extra symbols appear.")
CHECKS["C04"] = dict(level=MC, design="DESIGN.md section 6, C04", note=_SRH_NOTE, technique=_SRH_TECH,
    text="Same exploration as C01 with symbolic-expression, comment, padding and symbolicExpressionSizes entries at "
         "symbolic displacements inside atoms (block- and interval-keyed): after re-keying to listing positions z3 decides "
         "that exactly the entries of surviving atoms remain, each at its atom's new position, nothing outside its element, "
         "and that patch-created expressions sit at patch position + operand offset, refer by identity to the module's "
         "symbol, and carry the written addend and size.")
CHECKS["C06"] = dict(level=MC, design="DESIGN.md section 6, C06", note=_SRH_NOTE, technique=_SRH_TECH,
    text="Same exploration as C01 with function tables: every code atom of the edited listing (surviving or inserted) is "
         "covered by exactly one code block, and that block's function (inverted functionBlocks) is the function the "
         "listing model assigns; data is in no function; entries are a subset of blocks, surviving entry blocks stay "
         "entries, promotions stay inside the function; functions without code leave all three tables (except documented "
         "zero-sized blocks).")

CHECKS["C03"] = dict(level=MC, design="DESIGN.md section 6, C03", note=_SRH_NOTE + " Layouts add every terminator kind, "
    "callers/callees with a multi-block callee and one or two call sites. Three genuine defects are listed in "
    "known_findings.json and reported as KNOWN-FINDING; fallthrough edges to a proxy/zero-sized block where no code "
    "follows, and incoming edges redirected to the proxy under retarget_to_proxy, are accepted as documented.",
    technique=_SRH_TECH,
    text="Same exploration as C01; the resulting CFG is flattened to instructions (each block's atoms by listing position) "
         "and compared, edge set by edge set, with the control flow of the edited listing computed by the listing model: "
         "fallthrough exactly where the instruction can fall through into code, branch/call edges to the instruction at "
         "the target label (or the symbol's proxy) with conditional/direct flags, return edges of a function to the return "
         "sites of the calls that target it or to one proxy, no edge endpoint outside the module, no control transfer "
         "inside a block, zero-sized blocks only with the documented fallthrough-to-proxy edge.")

CHECKS["C05"] = dict(level=MC, design="DESIGN.md section 6, C05", note=_SRH_NOTE + " Serialisation is witness-level: the protobuf "
    "round trip (FFI) runs on the concrete replays of z3 witnesses (>= 1 per shape), not symbolically.",
    technique=_SRH_TECH + "; fault enumeration over the k-th patch callback",
    text="Same exploration as C01 (plus CFI layouts) and, for every scenario with patches, a variant in which the k-th "
         "patch callback raises (every k). z3 decides on every path: blocks inside their intervals and pairwise disjoint, "
         "every CFG endpoint, symbol referent, expression symbol and every node mentioned in any aux table (generic walk) "
         "is part of the module, zero-sized blocks only in the documented cases, addresses present; after a failing patch "
         "ir.cfg is the caller's CFG object with exactly the edges that were live at the failure and no symbol is stranded. "
         "The concrete replays additionally save/load the IR through protobuf and compare with deep_eq.")
CHECKS["C08"] = dict(level=MC, design="DESIGN.md section 6, C08", note=_SRH_NOTE + " CFI layouts: one procedure over three "
    "blocks (personality/LSDA, remember/restore, directives at block start, instruction boundaries and block end), two "
    "adjacent procedures, procedures separated by or split across a data block; patches with and without own directives.",
    technique=_SRH_TECH,
    text="Same exploration as C01 on CFI layouts: the cfiDirectives table after the rewrite, projected to listing "
         "positions, must match the directive sequence of the edited listing model (structural directives in place and in "
         "order, non-structural ones optional only next to deleted instructions, a procedure without remaining code "
         "droppable as a unit, patch directives present exactly when the insertion point is inside a procedure - including "
         "its very end), evaluate with procedures opened/closed exactly once, and every instruction is inside a procedure "
         "iff the listing says so. With unchanged sequence and positions the unwind state at every original instruction "
         "is unchanged.")

CHECKS["C09"] = dict(level=MC, design="DESIGN.md section 6, C09", note=_SRH_NOTE + " No repository hook is used: the monitors wrap "
    "rewriting.insert / rewriting.delete / make_modify_cache / RewritingContext._invoke_patch as module attributes.",
    technique=_SRH_TECH + "; self-composition of two copies of one symbolic scenario",
    text="Self-composition: the same symbolic scenario is built twice over the same z3 variables; copy 1 applies all "
         "modifications in one apply(), copy 2 applies them one context at a time in address order, each located again by "
         "listing position in the current IR. z3 decides that bytes, symbol positions, block boundaries, CFG edges, "
         "expressions, offset-keyed aux tables and function tables are equal (up to UUIDs and temporary-label suffixes). "
         "After every insert()/delete() of the batch run monitors compare functions_by_block with functionBlocks, the "
         "return-edge cache with a scan of ir.cfg, the block ordering with the section's blocks/offsets, and before every "
         "patch is assembled that each symbol the patch names reads (directly from the IR) the referent the reference "
         "cache reports.")

CHECKS["C11"] = dict(level=MC, design="DESIGN.md section 6, C11", note=_SRH_NOTE + " Hash-seed / UUID clause: hash seeds and UUID "
    "draws reach the result only through the iteration order of hash-ordered collections; the library is re-compiled from the "
    "current source with every iteration site (for / comprehension / starred / sorted, list, next, min, max ...) wrapped, and one "
    "site at a time is presented reversed and (>= 3 elements) rotated by one - the (site, order) pair is an enumerated choice, all "
    "numbers stay symbolic. Bounds of that clause: one perturbed site per run, two alternative orders, sites inside "
    "gtirb_rewriting only (orders inside gtirb, gtirb_functions, gtirb_layout, mcasm, networkx are not varied); the UUID-value "
    "clause additionally by swapping the magnitude of two function UUIDs on a shared-tail layout; repeated runs by using one Patch "
    "object in two successive rewrites.",
    technique=_SRH_TECH + "; self-composition over permutations of the registration order and over iteration orders of "
              "hash-ordered collections (AST import hook over the current source)",
    text="Self-composition: the same symbolic scenario is built twice over the same z3 variables and (a) its 2-3 modifications "
         "are registered in two different orders (every permutation that keeps the relative order of requests at the same "
         "location), (b) one iteration site over a hash-ordered collection is presented in another order, (c) two function UUIDs "
         "are swapped in magnitude, (d) a Patch object is reused in a second rewrite. z3 decides that bytes, symbol positions, "
         "block boundaries, CFG edges, expressions, aux tables, function tables and temporary-label names (compared exactly) "
         "are equal.")

CHECKS["C10"] = dict(level=MC, design="DESIGN.md section 6, C10",
    note="Bounds: split/join on one interval with 0-3 (quick) / 0-4 (thorough) blocks at arbitrary symbolic offsets and sizes "
         "(z3 splits over all order/overlap/containment/zero-size/gap relations), 0-2 symbolic expressions and aux entries "
         "at arbitrary offsets, default and custom tables, with/without an uninitialised tail; join of 2 intervals with "
         "alignment 2^0..2^5, nop size 1 and 4, address residues enumerated, sizes symbolic; empty apply() on every layout "
         "of the rewrite harness; alignment through a real rewrite on one x86-64 layout; align_address / "
         "effective_alignment as bit-vectors for address < 2^64 and alignment/max 2^0..2^32. Excluded: a zero-sized block "
         "at exactly the offset of another block (grouping depends on set iteration order). Trusted: symx + shims "
         "(concrete replays), z3 and /usr/bin/z3 (must agree on the kernels).",
    technique="symbolic execution of the real split/join/apply code (symx) + z3 LIA; AST-to-bit-vector translation of the two "
              "alignment kernels decided on two solvers",
    text="z3 decides, for all block geometries within the structural bounds, that split_byte_interval gives every group of "
         "overlapping blocks its own interval with bytes, addresses, symbolic expressions and aux entries preserved, that "
         "join_byte_intervals restores a fully initialised interval exactly, that joining with alignment yields aligned "
         "blocks with a fill of whole nops after code / zeros after data covered by non-overlapping blocks and PaddingError "
         "exactly when the fill is not a whole number of nops, that apply() with no modifications changes nothing but "
         "leafFunctions, and that aligned blocks stay aligned through a rewrite (including alignment introduced by a patch).")

CHECKS["C20"] = dict(level=MC, design="DESIGN.md section 6, C20",
    note="Bounded histories, exhaustive within the sizes: ReferenceCache 3-4 blocks / 3-4 symbols / 2-3 retargets + 1-3 "
         "arbitrary operations + apply(); ReturnEdgeCache 3-4 operations over 2 blocks + proxy, make_return_cache with 10 body "
         "behaviours; BlockOrdering 4-5 operations over 5 blocks; OffsetMapping 3-4 operations with 3 symbolic displacements; "
         "IdentitySet 4-5 operations. This is the weakest use of the solver among the checks: only OffsetMapping key "
         "equalities are decided by z3, everything else is exhaustive enumeration driven by the engine's choice points. "
         "Trusted: symx, the abstract models in harness/containers.py.",
    technique="exhaustive bounded operation sequences through symx choice points; z3 for OffsetMapping displacement equalities",
    text="Every sequence of public operations up to the stated length is executed on the real container and on a plain "
         "abstract model (dictionary of referents, set of edges scanned for returns, list of lists, dictionary of "
         "dictionaries, list of identities) and compared after every step; leaving the return-cache context restores the "
         "caller's CFG object with the final edges also when the body raises, and reports modification/replacement.")

CHECKS["C19"] = dict(level=MC, design="DESIGN.md section 6, C19",
    note="Bounds: one or two deleted symbols plus a bystander present everywhere; the deleted symbol is mentioned by all, none "
         "or exactly one of the tables (the library handles tables independently), 5 expression-use shapes (incl. first/second "
         "operand of SymAddrAddr), force flags and a repeated request; ELF version ids (6 table ids, 3 symbol ids) are z3 "
         "integers so that sharing and the position of the base definition are decided by the solver; PE import/export "
         "lists. Serialisation witness-level. Trusted: symx, z3, the expectations written in harness/delsym.py.",
    technique="symbolic execution of the real delete_symbols code through RewritingContext.delete_symbol/apply (symx) + z3 LIA "
              "on version ids; enumeration of table memberships through choice points",
    text="On every path z3 decides that a deleted symbol is out of the module and of every aux table (generic walk), that CFI "
         "directives naming it carry the null UUID (DW_EH_PE_omit for personality/LSDA), that exactly the expressions using "
         "it are removed under force and SymbolUsesRemainingError is raised otherwise, that a version definition/requirement "
         "is dropped exactly when no remaining entry uses its id (base definition kept, empty libraries removed), and that "
         "everything about a bystander symbol is unchanged; concrete replays round-trip the IR through protobuf.")

CHECKS["C18"] = dict(level=MC, design="DESIGN.md section 6, C18",
    note="Bounds: x86-64 only (ELF PIE, ELF non-PIE, PE); uses of A as direct call, direct jump, call through the GOT, lea, data "
         "word, CFI personality/LSDA, symbolForwarding value, with a bystander symbol having the same kinds of uses; A/B "
         "internal/external in all four combinations; requests: one, chain, two independent, combined with an insertion, "
         "to/from a data object, the four invalid requests. Only the addends are z3 integers: the real capstone decoder "
         "classifies the access, so instruction bytes and addresses are concrete and configurations are enumerated - the "
         "solver contributes little to this check. One genuine defect (return edges are not updated) is a known finding. "
         "Trusted: symx, the attribute table transcribed in harness/retarget.expected_attrs.",
    technique="symbolic execution of the real retarget code through RewritingContext (symx) with symbolic addends; enumeration of "
              "use kinds/configurations",
    text="For each configuration the check decides that every expression, CFI directive and symbolForwarding value that named "
         "A now names B with the same addend (for all addends) and with attributes converted per an independent transcription "
         "of the ABI's internal/external rule, that everything mentioning the bystander is untouched, that exactly the branch "
         "and call edges of instructions whose operand was A lead to B's referent, that return edges follow the calls (known "
         "finding), and that invalid requests are refused.")

CHECKS["C07"] = dict(level=MC, design="DESIGN.md section 6, C07",
    note="Bounds: four x86-64 layouts (2-3 functions, function-less code block, data block, function named main, entry point, no "
         "function tables); AllBlocksScope / AllFunctionsScope(ENTRY, EXIT) / SingleBlockScope x ENTRY/EXIT/ANYWHERE; name filters "
         "literal, compiled regex, MAIN_NAME, ENTRYPOINT_NAME, no match (names are concrete: regular expressions over symbolic "
         "strings are outside the engine); 1-3 passes through the real PassManager.run with 1-4 registrations mixed with insert_at. "
         "All instruction sizes are z3 integers: in the symbolic run the decoder is a stub reporting the scenario's atoms; the "
         "concrete replays (one per path) use the real capstone decoder, which validates the stub. Trusted: symx, oracle/listing.py, "
         "the designation rules in harness/scopes.designated.",
    technique=_SRH_TECH + "; stub instruction decoder with symbolic sizes",
    text="For every registration z3 decides (for all instruction sizes) that the section bytes equal the listing model in which "
         "the patch was spliced exactly once into each block the scope designates - at offset 0 (ENTRY/ANYWHERE) or immediately "
         "before the terminator / at the end (EXIT) - and into no other block, in registration order at equal locations across "
         "passes, and that the InsertionContext of each invocation names the original block, that offset and the block's "
         "function (None outside functions).")

CHECKS["C17"] = dict(level=TV, design="DESIGN.md section 6, C17",
    note="Bounds: x86-64 ELF/PE, IA32 PE, ARM64; 0..9 (quick) / 0..16 (thorough) arguments where one argument (first, last "
         "register, first stack slot, last) is a full-range integer [-2^63, 2^64) or a symbol and the others are integers in "
         "[0, 2^15); default conventions and custom ones (0/1/3 registers, alignment 2^2..2^5, caller/callee cleanup, shadow "
         "space of 0..64 words); stack_adjustment any non-negative word multiple or None; initial stack pointer symbolic. The "
         "symbolic CPU interprets the EMITTED TEXT (placeholder tokens for symbolic numbers); what the assembler makes of it is "
         "checked on the concrete replays only (one z3 witness per path: real assembler must accept the text, capstone-decoded "
         "immediates must equal the text-level ones). Three genuine defects are known findings, two were fixed. Trusted: symx, "
         "the text grammar and CPU in harness/calls.py, z3.",
    technique="symbolic execution of the real CallPatch.get_asm (symx) producing tokenised assembly, interpreted by a z3-backed "
              "symbolic CPU; translation validation of witnesses through the real assembler and capstone",
    text="For all argument values, prologue adjustments and convention parameters z3 decides that register i holds argument i, "
         "stack argument j sits at SP+shadow+j*word at the call, the call executes with SP aligned to the convention's "
         "alignment, SP is restored afterwards (callee-cleanup modelled), nothing is written at or above the initial SP, "
         "argument callables receive the insertion context, and the emitted text is inside the accepted grammar (ARM64 "
         "movz/movk chunks rebuild every 64-bit value).")

CHECKS["C16"] = dict(level=TV, design="DESIGN.md section 6, C16",
    note="Bounds: Constraints values are ENUMERATED (5 ABIs x flags x align_stack x preserve x scratch 0..3 x leaf x 6 clobber sets "
         "x 4 read sets); the machine state is symbolic (every register, flags, stack pointer of any alignment, stack memory) and "
         "the patch body is a havoc of exactly the declared resources. The symbolic CPU interprets the snippet TEXT returned by "
         "the real ABI classes over a closed instruction set (anything else is inconclusive); integers are unbounded (no "
         "wrap-around). Concrete replays assemble every snippet with the real assembler (acceptance only). Trusted: symx, the CPU "
         "in harness/abi_cpu.py, z3.",
    technique="symbolic CPU (z3 integers) executing the prologue/epilogue text generated by the real ABI code from a fully symbolic "
              "machine state; configurations enumerated through symx choice points",
    text="For every configuration z3 decides, for all machine states, that after the epilogue every declared register (clobbered, "
         "scratch, caller-saved when preserved), the flags when declared and the stack pointer have their initial values, that "
         "undeclared registers are untouched, that every store lies below the original stack pointer (and below the red zone in "
         "a possible leaf function), that every load reads a slot this sequence stored, that the body runs ABI-aligned under "
         "align_stack, that a reported stack_adjustment equals the real displacement, and that scratch registers are distinct, "
         "as many as requested, not read, not reserved and saved.")

_ASM_NOTE = ("PARTIAL CLAIM: only the Python half of the assembler (_SymbolCreator, _Streamer callbacks, Assembler.finalize and its "
             "clean-up passes) is decided. LLVM MC (mcasm) is FFI: it parses the concrete text and produces the event stream; "
             "'the bytes disassemble to the instructions written' is checked with capstone on the concrete replays only "
             "(witness-level). Symbolic: the length of every chunk the streamer appends (>= its real length), via a wrapper of "
             "_Streamer._append_data, so block offsets/sizes and label/expression positions are z3 terms. Programs: 18 token "
             "programs x x86-64 Intel/AT&T, ARM64 (thorough: IA32) x ELF PIE/non-PIE x trivially_unreachable. Not covered: "
             "section switches, .align, .string, CFI inside assembled text, MIPS32, PE. Trusted: symx, the model in harness/asm.py.")
CHECKS["C12"] = dict(level=MC, design="DESIGN.md section 6, C12 (claimed in part)", note=_ASM_NOTE,
    technique="symbolic execution of the real streamer/finalize code (symx) with symbolic chunk lengths injected at "
              "_Streamer._append_data, events from the real LLVM MC parser; capstone on concrete witnesses",
    text="For every program and for all instruction sizes z3 decides that the blocks tile the section data contiguously with at "
         "most one empty block at the end, that block boundaries are exactly at labels and after control transfers, that every "
         "transfer ends its block with the edges its kind demands (fresh proxy per return/indirect transfer), that labels refer "
         "to the block starting at their position (or at_end of the last block when trailing and unreachable), that .byte-only "
         "blocks nothing reaches become data (first block of an executable section only under trivially_unreachable), and that "
         "each symbolic operand yields one expression inside its instruction with the right symbol object, addend, PLT attribute "
         "and a plausible size.")
CHECKS["C13"] = dict(level=MC, design="DESIGN.md section 6, C13 (claimed in part)", note=_ASM_NOTE + " Not decided: which names LLVM "
    "treats as temporary (FFI); more than two chunks.",
    technique="as C12; chunked assembly compared against the same model at every legal cut",
    text="Names that exist in the module bind to the module's symbol objects (identity); an unknown name raises "
         "UndefSymbolError or, when allowed, yields exactly one proxy-backed symbol per name; defining an existing name "
         "(global, temporary-looking, own label, via .set) raises MultipleDefinitionsError; temporary labels and temporary "
         "assigned symbols receive the suffix and two copies never share a name or capture each other's label; assembling a "
         "program in two chunks at any cut that does not refer forward gives the same blocks, edges, labels and expressions "
         "as the model of the whole program, for all instruction sizes.")

NOT_YET = "check not built yet in this round (planned, see DESIGN.md section 6)"

manifest = {
    "version": 1,
    "setup_cmd": "bin/setup.sh",
    "hooks": {
        "guard": "GTIRB_REWRITING_VERIF",
        "enable": "no source hooks are needed: harnesses wrap module attributes at run time; the guard name is reserved",
        "baseline_off_cmd": "cd /repo && /venv/bin/python -m pytest -ra -q -p no:cacheprovider --timeout=900 "
                            "--continue-on-collection-errors",
        "source_commits": [],
        "add_only": True,
    },
    "engines": [
        {"name": "symx", "path": "symx/", "serves_properties": sorted(CHECKS),
         "kind_free_text": "fork/replay-based symbolic executor for Python on z3 (SymInt/Rope/SBytes proxies, "
                           "namespace shims), concrete replay of every counterexample and of path witnesses"},
    ],
    "checks": [],
    "not_applicable": [],
    "notes": "Exit codes: 0 held, 1 replayed violation (VIOLATION line), 3 inconclusive/harness error. "
             "Known findings: known_findings.json.",
}
for p in props:
    pid = p["id"]
    c = CHECKS.get(pid)
    if not c:
        manifest["not_applicable"].append({"property_id": pid, "reason": NOT_YET})
        continue
    manifest["checks"].append({
        "property_id": pid,
        "quick_cmd": "bin/check %s quick" % pid,
        "thorough_cmd": "bin/check %s thorough" % pid,
        "evidence_file": "evidence/%s.json" % pid,
        "replay_cmd_template": "bin/check %s --replay {path}" % pid,
        "engine": "symx",
        "level_claimed": {"category": c["level"], "text": c["text"], "design_ref": c["design"]},
        "level_note": c["note"],
        "technique": c["technique"],
    })
with open(os.path.join(HERE, "MANIFEST.json"), "w") as f:
    json.dump(manifest, f, indent=1)
print("checks:", [c["property_id"] for c in manifest["checks"]])
