#!/bin/bash
# usage: confirm_seed.sh <PROP> <X>   e.g. C15 A
# Confirms an agent-proposed change in a fresh scratch worktree of /repo HEAD:
#   tests pass with the change, demo fails with it, demo passes without it.
# On success stores /verif/seeded/<PROP>-<X>/{patch.diff,demo.py,meta.json}
p=$1; x=$2
wt=/tmp/wt/confirm-$p-$x
diff=/tmp/wt/$p.$x.diff; demo=/tmp/wt/$p.$x.demo.py
[ -f "$diff" ] && [ -f "$demo" ] || { echo "$p-$x: missing files"; exit 2; }
git -C /repo worktree remove --force $wt 2>/dev/null
git -C /repo worktree add -q --detach $wt HEAD || exit 2
cp /repo/src/gtirb_rewriting/version.py $wt/src/gtirb_rewriting/version.py
cd $wt
run_demo() { (cd $wt && PYTHONPATH=$wt/src timeout 300 /venv/bin/python $demo >/tmp/wt/confirm-$p-$x.demo.out 2>&1); }
run_demo; clean_rc=$?
(git apply --3way $diff 2>/dev/null || git apply $diff) || { echo "$p-$x: patch does not apply"; git -C /repo worktree remove --force $wt; exit 2; }
git reset -q
git diff > /tmp/wt/confirm-$p-$x.patch
PYTHONPATH=$wt/src timeout 900 /venv/bin/python -m pytest -q -p no:cacheprovider tests --deselect tests/test_e2e.py > /tmp/wt/confirm-$p-$x.tests.out 2>&1; tests_rc=$?
run_demo; mut_rc=$?
summary=$(tail -1 /tmp/wt/confirm-$p-$x.tests.out)
cd /; git -C /repo worktree remove --force $wt
echo "$p-$x: demo_clean_rc=$clean_rc tests_rc=$tests_rc ($summary) demo_mutant_rc=$mut_rc"
if [ $clean_rc -eq 0 ] && [ $tests_rc -eq 0 ] && [ $mut_rc -ne 0 ]; then
  d=/verif/seeded/$p-$x; mkdir -p $d
  cp /tmp/wt/confirm-$p-$x.patch $d/patch.diff; cp $demo $d/demo.py
  python3 - "$p" "$x" "$summary" <<'PY'
import json,sys
p,x,summary=sys.argv[1:4]
what=needs=""
import glob
for f in glob.glob("/tmp/wt/%s.summary*.json"%p):
    try:
        for e in json.load(open(f)):
            if e.get("id")==x: what,needs=e.get("what",""),e.get("needs","")
    except Exception as ex: pass
meta={"property":p,"id":"%s-%s"%(p,x),"what":what,"needs_to_manifest":needs,
 "confirmed":{"where":"scratch worktree of /repo HEAD under /tmp/wt (removed afterwards)",
   "existing_tests_with_change":"pass: "+summary,"demo_with_change":"fails (non-zero exit)","demo_without_change":"passes (exit 0)",
   "commands":["PYTHONPATH=<wt>/src /venv/bin/python -m pytest -q -p no:cacheprovider tests --deselect tests/test_e2e.py","PYTHONPATH=<wt>/src /venv/bin/python demo.py"]},
 "detected_by":None}
json.dump(meta,open("/verif/seeded/%s-%s/meta.json"%(p,x),"w"),indent=1)
PY
  echo "$p-$x: CONFIRMED"
else
  echo "$p-$x: NOT confirmed"; exit 1
fi
