#!/bin/bash
# usage: seedtest_par.sh <seed id> [check id] [tier]
# Runs a check against a seeded change WITHOUT touching /repo: scratch worktree of /repo HEAD with the patch applied,
# scratch copy of /verif (so evidence/ and replays/ of /verif are not overwritten), both removed afterwards.
sid=$1; pid=${2:-${sid%%-*}}; tier=${3:-quick}
wt=/tmp/wt/st-$sid-$pid; vc=/tmp/wt/verif-$sid-$pid
git -C /repo worktree remove --force $wt 2>/dev/null
git -C /repo worktree add -q --detach $wt HEAD || exit 9
cp /repo/src/gtirb_rewriting/version.py $wt/src/gtirb_rewriting/version.py
(cd $wt && (git apply /verif/seeded/$sid/patch.diff 2>/dev/null || git apply --3way /verif/seeded/$sid/patch.diff)) || { echo "$sid: patch does not apply"; git -C /repo worktree remove --force $wt; exit 9; }
rm -rf $vc; mkdir -p $vc
rsync -a --exclude .git --exclude .venv --exclude replays --exclude seeded /verif/ $vc/
ln -s /verif/.venv $vc/.venv
(cd $vc && VERIF_REPO=$wt VERIF_JOBS=${VERIF_JOBS:-8} bin/check $pid $tier > /tmp/wt/st-$sid-$pid.out 2>&1); rc=$?
rm -rf $vc; git -C /repo worktree remove --force $wt
echo "$sid vs $pid $tier: exit=$rc $(grep -c '^VIOLATION' /tmp/wt/st-$sid-$pid.out) violation lines; $(grep -m1 'msg=' /tmp/wt/st-$sid-$pid.out | cut -c1-300)"
exit $rc
