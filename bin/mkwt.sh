#!/bin/bash
# usage: mkwt.sh <name>  -> creates /tmp/wt/<name>, a scratch worktree of /repo HEAD that imports its own src
set -e
d=/tmp/wt/$1
mkdir -p /tmp/wt
git -C /repo worktree remove --force "$d" 2>/dev/null || true
git -C /repo worktree add -q --detach "$d" HEAD
cp /repo/src/gtirb_rewriting/version.py "$d/src/gtirb_rewriting/version.py"
echo "$d"
