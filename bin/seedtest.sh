#!/bin/bash
# usage: seedtest.sh <patch.diff> <property id> [tier]   (applies patch to /repo, runs the check, reverts)
patch=$1; pid=$2; tier=${3:-quick}
cd /repo || exit 9
if ! git diff --quiet; then echo "/repo is dirty"; exit 9; fi
git apply "$patch" 2>/dev/null || { git checkout -q -- . ; git apply --3way "$patch" 2>/dev/null && ! grep -rq "^<<<<<<< " src; } || { git reset -q; git checkout -q -- . ; echo "patch does not apply"; exit 9; }
git reset -q  # unstage what --3way staged
cd /verif
cp evidence/$pid.json /tmp/evidence-$pid.bak 2>/dev/null
bin/check "$pid" "$tier"; rc=$?
cp /tmp/evidence-$pid.bak evidence/$pid.json 2>/dev/null  # evidence must describe runs on the unchanged tree
git -C /repo checkout -- . ; git -C /repo status --short | grep -v '^??' 
echo "seedtest exit=$rc"
exit $rc
