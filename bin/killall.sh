#!/bin/bash
# kill stray check processes (development helper)
pkill -9 -f "harness[.]main" || true
