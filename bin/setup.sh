#!/bin/bash
# Idempotent, offline bootstrap of <root>/.venv: a venv of /venv's python with
# /venv's site-packages visible (so the editable install of /repo is what is
# analysed) plus z3-solver (and crosshair-tool) from the offline wheelhouse.
set -e
ROOT="$(cd "$(dirname "$0")/.." && pwd)"
V="$ROOT/.venv"
STAMP=$V/.ok2
if [ -f "$STAMP" ] && "$V/bin/python" -c "import z3, gtirb_rewriting" 2>/dev/null; then exit 0; fi
(
  flock 9
  if [ -f "$STAMP" ] && "$V/bin/python" -c "import z3, gtirb_rewriting" 2>/dev/null; then exit 0; fi
  rm -rf "$V"
  /venv/bin/python -m venv "$V"
  SP=$("$V/bin/python" -c "import sysconfig; print(sysconfig.get_paths()['purelib'])")
  echo "import site; site.addsitedir('/venv/lib/python3.12/site-packages')" > "$SP/overlay.pth"
  PIP_NO_INDEX=1 "$V/bin/pip" install -q --no-index --find-links /opt/veriftools/wheels z3-solver crosshair-tool >/dev/null 2>&1 || \
  PIP_NO_INDEX=1 "$V/bin/pip" install -q --no-index --find-links /opt/veriftools/wheels z3-solver
  "$V/bin/python" -c "import z3, gtirb_rewriting, gtirb, mcasm"
  touch "$STAMP"
) 9>"$ROOT/.venv.lock"
