#!/usr/bin/env python3
"""usage: mark_seed.py <seed id> <check id|none> <note...>  -- records which check catches a seeded change"""
import json, sys
sid, chk = sys.argv[1], sys.argv[2]
note = " ".join(sys.argv[3:])
p = "/verif/seeded/%s/meta.json" % sid
m = json.load(open(p))
m["detected_by"] = None if chk == "none" else chk
m["detection_note"] = note
json.dump(m, open(p, "w"), indent=1)
