"""C10: no-op rewrites are the identity; split/join round trip; alignment.

Real code under symbolic inputs: intervalutils.{split_byte_interval,
join_byte_intervals}, prepare.prepare_for_rewriting, RewritingContext.apply()
with no modifications, utils.{align_address, effective_alignment}.
"""
import ast
import inspect
import os
import subprocess
import tempfile
import textwrap

import gtirb
import z3

from harness import rewrite, srh
from symx import core, run, shims
from symx.core import And, Rope, rope_equal_check


def install():
    out = {}
    out.update(shims.install_gtirb_bytes())
    out.update(shims.install_determinism())
    return out


def _mk_module(isa=gtirb.Module.ISA.X64):
    ir = gtirb.IR()
    m = gtirb.Module(name="m", isa=isa, file_format=gtirb.Module.FileFormat.ELF, ir=ir,
                     byte_order=gtirb.Module.ByteOrder.Little)
    sect = gtirb.Section(name=".text", module=m, flags={gtirb.Section.Flag.Executable, gtirb.Section.Flag.Readable,
                                                        gtirb.Section.Flag.Loaded, gtirb.Section.Flag.Initialized})
    return ir, m, sect


def _source(eng, name, n):
    if eng.sym:
        return Rope.src(name, n), None
    data = bytes([(0x30 + 7 * i + len(name)) & 0xFF for i in range(n)])
    return data, data


# ---------------------------------------------------------------------------
# split / join on one interval with arbitrary (possibly overlapping) blocks
# ---------------------------------------------------------------------------
def h_split_join(eng, nblocks, kinds, nexpr, custom_tables, uninit, ordered=False):
    from gtirb_rewriting import _auxdata_offsetmap
    from gtirb_rewriting._adt import OffsetMapping
    from gtirb_rewriting.intervalutils import join_byte_intervals, split_byte_interval

    ir, m, sect = _mk_module()
    A = eng.int("A", 0, None)
    S = eng.int("S", 0, None)
    U = eng.int("U", 0, None) if uninit else 0  # uninitialised tail
    contents, raw = _source(eng, "I", S)
    bi = gtirb.ByteInterval(contents=b"", address=A, section=sect)
    if eng.sym:
        bi.size = S + U
        bi.contents = contents
    else:
        bi.contents = contents
        bi.size = S + U
    blocks = []
    for i in range(nblocks):
        o = eng.int("o%d" % i, 0, None)
        s = eng.int("s%d" % i, 0, None)
        eng.assume(o + s <= S)
        cls = gtirb.CodeBlock if kinds[i] == "c" else gtirb.DataBlock
        b = cls(offset=o, size=s)
        b.byte_interval = bi
        if ordered and blocks:
            eng.assume(blocks[-1][1] <= o)  # creation order = address order (stated restriction of the 4-block shapes)
        blocks.append((b, o, s))
    # a zero-sized block at exactly the offset of another block: whether it joins that block's group depends on the
    # iteration order of the interval's block set (ties of sorted(key=offset)); excluded from the claim
    for i in range(len(blocks)):
        for j in range(len(blocks)):
            if i != j:
                eng.assume(core.Not(And(blocks[i][1] == blocks[j][1], blocks[i][2] == 0)))
    exprs = []
    sym = gtirb.Symbol("x", payload=blocks[0][0] if blocks else None, module=m)
    for j in range(nexpr):
        k = eng.int("k%d" % j, 0, None)
        eng.assume(k < S)
        for (_, k2, _) in exprs:
            eng.assume(k != k2)
        e = gtirb.SymAddrConst(j, sym)
        bi.symbolic_expressions[k] = e
        exprs.append((e, k, None))
    if custom_tables:
        table = OffsetMapping()
        tables = [table]
    else:
        table = _auxdata_offsetmap.comments.get_or_insert(m)
        tables = None
    notes = []
    for j in range(nexpr):
        k = eng.int("c%d" % j, 0, None)
        eng.assume(k < S)
        for (_, k2) in notes:
            eng.assume(k != k2)
        table[gtirb.Offset(bi, k)] = "note%d" % j
        notes.append(("note%d" % j, k))
    # ---- reference grouping (independent of the library) -----------------------
    order = sorted(blocks, key=lambda t: t[1])  # comparisons are decided per path
    groups = []
    for (b, o, s) in order:
        if not groups or bool(groups[-1]["end"] <= o):
            groups.append({"begin": o, "end": o + s, "blocks": [b]})
        else:
            if bool(o + s > groups[-1]["end"]):
                groups[-1]["end"] = o + s
            groups[-1]["blocks"].append(b)
    # ---- split -------------------------------------------------------------------
    before_addr = {b: b.address for (b, _, _) in blocks}
    res = split_byte_interval(bi, {}, tables)
    eng.check(len(res) == max(1, len(groups)), "split returned %d intervals for %d groups of overlapping blocks" % (len(res), len(groups)))
    eng.check(res[0] is bi, "the first interval of the split is not the original one")
    for gi, g in enumerate(groups):
        for b in g["blocks"]:
            eng.check(b.byte_interval is res[gi], "block is not in the interval of its overlap group")
    total = 0
    joined = Rope() if eng.sym else b""
    for iv in res:
        total = total + iv.size
        c = iv.contents
        joined = joined + (c if eng.sym else bytes(c))
    eng.check(total == S + U, "split lost or duplicated bytes: interval sizes sum to something else")
    if eng.sym:
        rope_equal_check(eng, joined, contents, "initialised bytes after split")
    else:
        eng.check(joined == raw, "initialised bytes after split differ")
    for (b, o, s) in blocks:
        eng.check(b.address == A + o, "split changed a block's address")
        eng.check(b.size == s, "split changed a block's size")
        got = b.byte_interval.contents[b.offset:b.offset + b.size]
        if eng.sym:
            rope_equal_check(eng, got if isinstance(got, Rope) else Rope.lit(bytes(got)), contents[o:o + s], "bytes of a block after split")
        else:
            eng.check(bytes(got) == raw[o:o + s], "bytes of a block after split differ")
    found = 0
    for iv in res:
        for key, e in iv.symbolic_expressions.items():
            hit = [x for x in exprs if x[0] is e]
            eng.check(len(hit) == 1, "unknown symbolic expression after split")
            eng.check(iv.address + key == A + hit[0][1], "split moved a symbolic expression to another address")
            eng.check(And(key >= 0, key < iv.size), "symbolic expression outside its interval after split")
            found += 1
    eng.check(found == len(exprs), "split lost a symbolic expression")
    found = 0
    for iv in res:
        for key, v in (table.get(iv, {}) or {}).items():
            hit = [x for x in notes if x[0] == v]
            eng.check(iv.address + key == A + hit[0][1], "split moved an aux data entry to another address")
            eng.check(And(key >= 0, key < iv.size), "aux data entry outside its interval after split")
            found += 1
    eng.check(found == len(notes), "split lost an aux data entry")
    # ---- join restores the interval (fully initialised case) ---------------------
    if uninit:
        return
    dest = join_byte_intervals(res, b"\x90", {}, tables)
    eng.check(dest is bi, "join did not return the first interval")
    eng.check(bi.size == S, "join(split(interval)) has another size")
    if eng.sym:
        rope_equal_check(eng, bi.contents, contents, "bytes after join(split())")
    else:
        eng.check(bytes(bi.contents) == raw, "bytes after join(split()) differ")
    for (b, o, s) in blocks:
        eng.check(b.byte_interval is bi and And(b.offset == o, b.size == s), "join(split()) moved a block")
    eng.check(len(bi.blocks) == len(blocks), "join(split()) created or lost blocks")
    keys = list(bi.symbolic_expressions.items())
    eng.check(len(keys) == len(exprs), "join(split()) lost a symbolic expression")
    for key, e in keys:
        hit = [x for x in exprs if x[0] is e]
        eng.check(key == hit[0][1], "join(split()) moved a symbolic expression")
    rows = list((table.get(bi, {}) or {}).items())
    eng.check(len(rows) == len(notes), "join(split()) lost an aux data entry")
    for key, v in rows:
        hit = [x for x in notes if x[0] == v]
        eng.check(key == hit[0][1], "join(split()) moved an aux data entry")


# ---------------------------------------------------------------------------
# join with alignment / padding
# ---------------------------------------------------------------------------
def h_join_align(eng, first_kind, align, nop_len, uninit, modulo):
    from gtirb_rewriting.intervalutils import PaddingError, join_byte_intervals

    ir, m, sect = _mk_module()
    A = eng.int("A", 0, None)
    eng.assume(A % modulo[0] == modulo[1])
    s0 = eng.int("s0", 1, None)
    s1 = eng.int("s1", 1, None)
    u0 = eng.int("u0", 0, None) if uninit else 0
    c0, raw0 = _source(eng, "I0", s0)
    c1, raw1 = _source(eng, "I1x", s1)
    i0 = gtirb.ByteInterval(contents=b"", address=A, section=sect)
    i1 = gtirb.ByteInterval(contents=b"", address=A + s0 + u0, section=sect)
    for iv, c, n in ((i0, c0, s0 + u0), (i1, c1, s1)):
        if eng.sym:
            iv.size = n
            iv.contents = c
        else:
            iv.contents = c
            iv.size = n
    cls0 = gtirb.CodeBlock if first_kind == "c" else gtirb.DataBlock
    b0 = cls0(offset=0, size=s0)
    b0.byte_interval = i0
    b1 = gtirb.CodeBlock(offset=0, size=s1)
    b1.byte_interval = i1
    e1 = gtirb.SymAddrConst(0, gtirb.Symbol("x", payload=b1, module=m))
    k = eng.int("k", 0, None)
    eng.assume(k < s1)
    i1.symbolic_expressions[k] = e1
    nop = bytes([0x90]) if nop_len == 1 else bytes([0x1F, 0x20, 0x03, 0xD5])
    table = {b1: align}
    pos = A + s0 + u0
    pad = (align - (pos % align)) % align
    fill = u0 + pad  # bytes that have to be materialised between the two blocks
    try:
        dest = join_byte_intervals([i0, i1], nop, table, [])
    except PaddingError:
        if first_kind == "c":
            eng.check(core.Or(u0 % nop_len != 0, pad % nop_len != 0),
                      "PaddingError although the padding is a whole number of nops")
        else:
            eng.fail("PaddingError after a data block (zeros fit any size)")
        return
    if first_kind == "c":
        eng.check(And(u0 % nop_len == 0, pad % nop_len == 0), "no PaddingError although the padding is not a whole number of nops")
    eng.check(dest is i0, "join did not return the first interval")
    eng.check(b1.byte_interval is i0, "second block not moved to the destination")
    eng.check(b1.address % align == 0, "joined block is not aligned")
    eng.check(b1.offset == s0 + fill, "joined block is not placed right after the padding")
    eng.check(i0.size == s0 + fill + s1, "size of the joined interval")
    unit = nop if first_kind == "c" else b"\x00"
    if eng.sym:
        want = c0 + (Rope.rep(unit, 1) * 0) + Rope([("rep:" + unit.hex(), 0, fill)]) + c1
        rope_equal_check(eng, i0.contents, want, "bytes after join with padding")
    else:
        want = raw0 + (unit * (fill // len(unit))) + raw1
        eng.check(bytes(i0.contents) == want, "bytes after join with padding differ")
    # the padding is covered by blocks of the preceding block's kind that tile it without overlap
    others = sorted([b for b in i0.blocks if b is not b0 and b is not b1], key=lambda b: b.offset)
    if bool(fill > 0):
        eng.check(1 <= len(others) <= 2, "padding is covered by %d blocks" % len(others))
        cur = s0
        for p in others:
            eng.check(type(p) is cls0, "padding block has another kind than the block before it")
            eng.check(And(p.offset == cur, p.size > 0), "padding blocks overlap or leave a hole")
            cur = cur + p.size
        eng.check(cur == s0 + fill, "padding blocks do not cover exactly the padding")
    else:
        eng.check(len(others) == 0, "padding block without padding")
    keys = list(i0.symbolic_expressions.items())
    eng.check(len(keys) == 1 and keys[0][1] is e1 and eng.must(keys[0][0] == s0 + fill + k), "symbolic expression not relocated with its bytes")


# ---------------------------------------------------------------------------
# apply() without modifications is the identity
# ---------------------------------------------------------------------------
def h_noop_apply(eng, spec):
    eng.reuse_vars = True
    a = srh.Scenario(eng, spec)
    b = srh.Scenario(eng, spec)
    aux_before = {k: v.data for k, v in b.module.aux_data.items()}
    b.register()
    b.apply()
    rewrite.compare_snapshots(eng, rewrite.snapshot(a, True), rewrite.snapshot(b, True), "C10 empty apply():")
    new_tables = set(b.module.aux_data) - set(aux_before)
    eng.check(new_tables <= {"leafFunctions", "alignment", "encodings", "cfiDirectives", "elfSymbolInfo", "symbolicExpressionSizes"},
              "empty apply() created aux tables %s" % sorted(new_tables))
    for name in new_tables - {"leafFunctions"}:
        eng.check(not b.module.aux_data[name].data, "empty apply() filled aux table %s" % name)
    for sect_a, sect_b in zip(a.sections, b.sections):
        eng.check(len(sect_b.byte_intervals) == len(sect_a.byte_intervals), "empty apply() changed the number of byte intervals")
        for ia, ib in zip(a.section_intervals(sect_a), b.section_intervals(sect_b)):
            eng.check(And(ia.address == ib.address, ia.size == ib.size), "empty apply() moved or resized a byte interval")


def h_noop_uninit(eng, kind_first):
    """Uninitialised bytes that precede a later block become explicit zero/nop padding; nothing else changes."""
    from gtirb_rewriting import RewritingContext

    ir, m, sect = _mk_module()
    A = eng.int("A", 64, None)
    s0 = eng.int("s0", 1, None)
    s1 = eng.int("s1", 1, None)
    u = eng.int("u", 0, None)  # uninitialised tail after the last block
    c, raw = _source(eng, "I", s0 + s1)
    bi = gtirb.ByteInterval(contents=b"", address=A, section=sect)
    if eng.sym:
        bi.size = s0 + s1 + u
        bi.contents = c
    else:
        bi.contents = c
        bi.size = s0 + s1 + u
    cls0 = gtirb.CodeBlock if kind_first == "c" else gtirb.DataBlock
    b0 = cls0(offset=0, size=s0)
    b0.byte_interval = bi
    b1 = gtirb.CodeBlock(offset=s0, size=s1)
    b1.byte_interval = bi
    if kind_first == "c":
        ir.cfg.add(gtirb.Edge(b0, b1, gtirb.Edge.Label(type=gtirb.Edge.Type.Fallthrough)))
    sym = gtirb.Symbol("x", payload=b1, module=m)
    ctx = RewritingContext(m, [], expensive_assertions=False)
    ctx.apply()
    eng.check(And(bi.address == A, bi.size == s0 + s1 + u), "empty apply() moved or resized the interval")
    eng.check(And(b0.offset == 0, b0.size == s0, b1.offset == s0, b1.size == s1), "empty apply() moved a block")
    eng.check(b0.byte_interval is bi and b1.byte_interval is bi, "empty apply() moved a block to another interval")
    eng.check(sym.referent is b1 and not sym.at_end, "empty apply() changed a symbol")
    init = bi.contents
    if eng.sym:
        rope_equal_check(eng, init[:s0 + s1] if isinstance(init, Rope) else Rope.lit(bytes(init)), c, "initialised bytes after an empty apply()")
    else:
        eng.check(bytes(init)[:s0 + s1] == raw, "initialised bytes after an empty apply() differ")
    eng.check(len(list(ir.cfg)) == (1 if kind_first == "c" else 0), "empty apply() changed the CFG")


def h_noop_uninit_gap(eng, kind_first):
    """Stored bytes end with the first block; behind it an uninitialised gap that no block covers, then a block that lies in
    the uninitialised part.  An empty apply() turns exactly the gap into nops (after code) / zeros (after data) covered by a
    block of the first block's kind, and moves nothing."""
    from gtirb_rewriting import RewritingContext

    ir, m, sect = _mk_module()
    A = eng.int("A", 64, None)
    s0 = eng.int("s0", 1, None)
    g = eng.int("g", 1, None)
    s1 = eng.int("s1", 1, None)
    c, raw = _source(eng, "I", s0)
    bi = gtirb.ByteInterval(contents=b"", address=A, section=sect)
    if eng.sym:
        bi.size = s0 + g + s1
        bi.contents = c
    else:
        bi.contents = c
        bi.size = s0 + g + s1
    cls0 = gtirb.CodeBlock if kind_first == "c" else gtirb.DataBlock
    b0 = cls0(offset=0, size=s0)
    b0.byte_interval = bi
    b1 = gtirb.DataBlock(offset=s0 + g, size=s1)
    b1.byte_interval = bi
    sym = gtirb.Symbol("x", payload=b1, module=m)
    ctx = RewritingContext(m, [], expensive_assertions=False)
    ctx.apply()
    eng.check(And(bi.address == A, bi.size == s0 + g + s1), "empty apply() moved or resized the interval")
    eng.check(And(b0.offset == 0, b0.size == s0, b1.offset == s0 + g, b1.size == s1), "empty apply() moved a block")
    eng.check(b0.byte_interval is bi and b1.byte_interval is bi and sym.referent is b1, "empty apply() moved a block to another interval")
    others = sorted([b for b in bi.blocks if b is not b0 and b is not b1], key=lambda b: b.offset)
    eng.check(len(others) >= 1, "the uninitialised gap in front of a block is not covered by a padding block")
    cur = s0
    for pb in others:
        eng.check(type(pb) is cls0, "the gap after a %s is covered by a %s" % (cls0.__name__, type(pb).__name__))
        eng.check(pb.offset == cur, "padding blocks do not tile the gap")
        cur = cur + pb.size
    eng.check(cur == s0 + g, "padding blocks do not cover exactly the gap")
    unit = b"\x90" if kind_first == "c" else b"\x00"
    init = bi.contents
    if eng.sym:
        want = c + Rope([("rep:" + unit.hex(), 0, g)])
        got = init[:s0 + g] if isinstance(init, Rope) else Rope.lit(bytes(init)[:s0 + g])
        rope_equal_check(eng, got, want, "stored bytes and gap fill after an empty apply()")
    else:
        eng.check(bytes(init)[:s0 + g] == raw + unit * g, "stored bytes and gap fill after an empty apply() differ: %s" % bytes(init)[:s0 + g].hex())


# ---------------------------------------------------------------------------
# alignment kept through a real rewrite
# ---------------------------------------------------------------------------
def h_apply_align(eng, align, patch, existing_table):
    """A block aligned before the rewrite is aligned after it; the fill is whole nops in a code block."""
    import copy
    from harness import rewrite_shapes
    spec = rewrite_shapes.text_layout("o", annots=False)
    spec = copy.deepcopy(spec)
    spec["sections"][0]["blocks"][2]["align"] = align if existing_table != "empty" else None
    if existing_table == "empty":
        spec["alignment_table"] = True
    spec["mods"] = [rewrite_shapes.ins("b1", 1, patch)]
    sc = srh.Scenario(eng, spec)
    b2 = sc.blocks["b2"]
    if existing_table != "empty":
        eng.assume(b2.address % align == 0)
    sc.register()
    sc.apply()
    m = sc.module
    from gtirb_rewriting import _auxdata
    tbl = _auxdata.alignment.get(m) or {}
    for blk, a in tbl.items():
        if isinstance(blk, gtirb.ByteBlock) and blk.byte_interval is not None:
            eng.check(blk.address % a == 0, "a block with alignment %d is misaligned after the rewrite" % a)
    if existing_table != "empty":
        eng.check(tbl.get(b2) == align, "alignment entry of an existing block lost")
    # bytes: originals + assembled patch + fill; the fill is bounded by the alignments and covered by blocks
    total_before = 0
    for atoms in sc.atoms.values():
        for a_ in atoms:
            total_before = total_before + a_.length
    patch_len = sum(len(res.text_section.data) for _, res in sc.patch_log)
    total_got = 0
    for bi in sc.sections[0].byte_intervals:
        total_got = total_got + bi.size
    fill = total_got - total_before - patch_len
    eng.check(fill >= 0, "bytes were lost")
    eng.check(fill < 2 * max([align] + list(tbl.values())), "more padding than the alignments can require")
    covered = 0
    for blk in sc.sections[0].byte_blocks:
        covered = covered + blk.size
    eng.check(covered == total_got, "padding bytes are not covered by blocks")
    if patch == "align16":
        eng.check(any(a == 16 for a in tbl.values()), "the .align 16 of the patch left no alignment entry")


def h_apply_align2(eng, b1_align, b2_align, mods, patch_align):
    """Alignment requirements of existing blocks and of blocks a patch adds, when they meet: a patch that starts with
    .align N spliced in at offset 0 of a block that has its own alignment entry (weaker, equal or stronger); a whole
    block deleted in front of an aligned block (the fill after code must be nops in a code block)."""
    import copy
    from harness import rewrite_shapes
    from gtirb_rewriting import _auxdata
    spec = copy.deepcopy(rewrite_shapes.text_layout("o", annots=False))
    blocks = spec["sections"][0]["blocks"]
    blocks[1]["align"] = b1_align
    blocks[2]["align"] = b2_align
    spec["alignment_table"] = True
    spec["mods"] = copy.deepcopy(mods)
    sc = srh.Scenario(eng, spec)
    for bid, a in (("b1", b1_align), ("b2", b2_align)):
        if a:
            eng.assume(sc.blocks[bid].address % a == 0)
    sc.register()
    sc.apply()
    m = sc.module
    tbl = _auxdata.alignment.get(m) or {}
    in_module = set(m.byte_blocks)
    # known finding: join_byte_intervals aligns only the first block of an interval that has an alignment entry, so a block
    # with an entry that ends up behind another such block of the same (per-block) interval is not padded for
    second_in_group = any(md["op"] == "insert" and md["patch"].startswith("lead_align") and md["at"] > 0
                          and {"b1": b1_align, "b2": b2_align}.get(md["blk"]) for md in mods)
    for blk, a in tbl.items():
        eng.check(isinstance(blk, gtirb.ByteBlock) and blk in in_module,
                  "C10/C05 the alignment table mentions a block that is not part of the module: %r" % (blk,))
        eng.check(blk.address % a == 0, "a block with alignment %d is misaligned after the rewrite" % a,
                  finding="C10-aligned-block-behind-another-aligned-block-of-its-interval" if second_in_group else None)
    deleted = {md["blk"] for md in mods if md["op"] == "delete" and md["at"] == 0 and md["to"] == len(sc.atoms[md["blk"]])}
    for bid, a in (("b1", b1_align), ("b2", b2_align)):
        if a and bid not in deleted:
            blk = sc.blocks[bid]
            eng.check(blk in in_module, "block %s left the module" % bid)
            eng.check(eng.must(tbl.get(blk, 1) % a == 0), "alignment requirement %d of existing block %s was weakened to %r" % (
                a, bid, tbl.get(blk)))
    if patch_align:
        # the code of the patch starts at its label, which the patch aligned
        for mi, md in enumerate(mods):
            if md["op"] == "insert" and md["patch"].startswith("lead_align"):
                syms = list(m.symbols_named("pl_%d" % mi))
                eng.check(len(syms) == 1 and isinstance(syms[0].referent, gtirb.CodeBlock), "patch label pl_%d missing" % mi)
                ref = syms[0].referent
                eng.check(ref.address % patch_align == 0,
                          "the block a patch aligned to %d (.align at the start of the patch) is not aligned after the rewrite" % patch_align,
                          finding="C10-aligned-block-behind-another-aligned-block-of-its-interval" if second_in_group else None)
    # fill: bounded, covered by blocks, nops in code blocks (this section holds only code)
    total_before = 0
    for bid, atoms in sc.atoms.items():
        for j, a_ in enumerate(atoms):
            gone = any(md["op"] == "delete" and md["blk"] == bid and md["at"] <= j < md["to"] for md in mods)
            if not gone:
                total_before = total_before + a_.length
    patch_len = sum(len(res.text_section.data) for _, res in sc.patch_log)
    total_got = 0
    for bi in sc.sections[0].byte_intervals:
        total_got = total_got + bi.size
    fill = total_got - total_before - patch_len
    eng.check(fill >= 0, "bytes were lost")
    eng.check(fill < 2 * max([1, b1_align or 1, b2_align or 1, patch_align or 1]), "more padding than the alignments can require")
    covered = 0
    for blk in sc.sections[0].byte_blocks:
        covered = covered + blk.size
        eng.check(isinstance(blk, gtirb.CodeBlock), "padding after code is covered by a %s (must be nops in a code block)" % type(blk).__name__)
    eng.check(covered == total_got, "padding bytes are not covered by blocks (or blocks overlap)")
    # every byte that is neither an original byte nor a patch byte is a nop
    own = set()
    for atoms in sc.atoms.values():
        own.update(a_.src for a_ in atoms)
    for bi in sc.sections[0].byte_intervals:
        c = bi.contents
        if eng.sym and isinstance(c, Rope):
            for (src, start, ln) in c.segs:
                if src in own or src.startswith("lit:"):
                    continue
                eng.check(src == "rep:90" or eng.must(ln == 0), "fill bytes after code are %s, not nops" % src)
    if not eng.sym:
        data = b"".join(bytes(bi.contents) for bi in sorted(sc.sections[0].byte_intervals, key=lambda i: i.address))
        known = b"".join(sc.sources[a_.src] for atoms in sc.atoms.values() for a_ in atoms)
        eng.check(b"\x00\x00" not in data or b"\x00\x00" in known + b"".join(bytes(r.text_section.data) for _, r in sc.patch_log),
                  "zero bytes were used as fill after code")


# ---------------------------------------------------------------------------
# straight-line bit-twiddling kernels: AST -> bit-vectors
# ---------------------------------------------------------------------------
W = 72


def _bv_translate(fn, args):
    src = textwrap.dedent(inspect.getsource(fn))
    tree = ast.parse(src).body[0]
    ret = [n for n in tree.body if isinstance(n, ast.Return)]
    if len(ret) != 1 or len([n for n in tree.body if not isinstance(n, (ast.Return, ast.Expr))]):
        raise core.Unsupported("kernel %s is no longer a single return expression" % fn.__name__)
    env = dict(zip([a.arg for a in tree.args.args], args))

    def ev(n):
        if isinstance(n, ast.BinOp):
            l, r = ev(n.left), ev(n.right)
            ops = {ast.Add: lambda: l + r, ast.Sub: lambda: l - r, ast.BitAnd: lambda: l & r, ast.BitOr: lambda: l | r,
                   ast.BitXor: lambda: l ^ r}
            if type(n.op) not in ops:
                raise core.Unsupported("operator %s in kernel" % type(n.op).__name__)
            return ops[type(n.op)]()
        if isinstance(n, ast.UnaryOp):
            v = ev(n.operand)
            if isinstance(n.op, ast.Invert):
                return ~v
            if isinstance(n.op, ast.USub):
                return -v
        if isinstance(n, ast.Name):
            return env[n.id]
        if isinstance(n, ast.Constant) and isinstance(n.value, int):
            return z3.BitVecVal(n.value, W)
        raise core.Unsupported("node %s in kernel" % type(n).__name__)

    return ev(ret[0].value)


def _decide_bv(eng, name, assumptions, goal):
    """unsat(assumptions & !goal) on z3 (API) and on /usr/bin/z3 via SMT-LIB; disagreement / errors are inconclusive."""
    s = z3.Solver()
    s.set("timeout", 60000)
    s.add(*assumptions)
    s.add(z3.Not(goal))
    r = s.check()
    if r == z3.unknown:
        raise core.Unsupported("z3 unknown on kernel " + name)
    smt = "(set-logic QF_BV)\n" + s.to_smt2()
    with tempfile.NamedTemporaryFile("w", suffix=".smt2", delete=False) as f:
        f.write(smt)
        path = f.name
    try:
        out = subprocess.run(["/usr/bin/z3", "-T:60", path], capture_output=True, text=True).stdout
    finally:
        os.unlink(path)
    if "(error" in out or not out.strip():
        raise core.Unsupported("second solver: %s" % out.strip()[:200])
    second = out.strip().splitlines()[0]
    if second != str(r):
        raise core.Unsupported("solvers disagree on %s: %s vs %s" % (name, r, second))
    if r == z3.sat:
        mdl = s.model()
        eng.fail("kernel %s violates its specification" % name, witness={str(d): str(mdl[d]) for d in mdl.decls()})
    eng.ok()


def h_kernels(eng, which):
    from gtirb_rewriting import utils
    addr = z3.BitVec("address", W)
    small = z3.ULT(addr, z3.BitVecVal(1, W) << 64)
    for k in range(0, 33):
        al = z3.BitVecVal(1 << k, W)
        mask = z3.BitVecVal((1 << k) - 1, W)
        if which == "align_address":
            res = _bv_translate(utils.align_address, [addr, al])
            goal = z3.And(z3.UGE(res, addr), (res & mask) == 0, z3.ULT(res - addr, al))
            _decide_bv(eng, "%s(alignment=2^%d)" % (which, k), [small], goal)
        else:
            res = _bv_translate(utils.effective_alignment, [addr, al])
            # the result is the largest power of two <= max that divides the address
            conds = []
            for j in range(0, k + 1):
                pj = z3.BitVecVal(1 << j, W)
                divides_j = (addr & z3.BitVecVal((1 << j) - 1, W)) == 0
                next_divides = (addr & z3.BitVecVal((1 << (j + 1)) - 1, W)) == 0 if j < k else z3.BoolVal(False)
                conds.append(z3.Implies(z3.And(divides_j, z3.Not(next_divides)), res == pj))
            _decide_bv(eng, "%s(max=2^%d)" % (which, k), [small], z3.And(*conds))


def classify(rec):
    return "violation"


def make_check(tier):
    from harness import rewrite_shapes
    chk = run.Check("C10", tier)
    chk.install_shims = install
    chk.classify_exception = classify
    quick = tier == "quick"
    kind_sets = {1: ["c", "d"], 2: ["cc", "cd", "dc"], 3: ["ccc", "cdc", "dcd"], 4: ["cccc", "cdcd"]}
    for n in ((0, 1, 2) if quick else (0, 1, 2, 3)):
        for kinds in (kind_sets.get(n) or [""]):
            if quick and n == 3 and kinds != "ccc":
                continue
            for custom in (False, True):
                for uninit in (False, True):
                    if quick and n >= 3 and (custom or uninit):
                        continue
                    chk.add("splitjoin/n%d/%s/%s/%s" % (n, kinds or "-", "custom" if custom else "aux", "uninit" if uninit else "full"),
                            h_split_join, params=dict(nblocks=n, kinds=kinds, nexpr=(1 if n >= 3 else 2), custom_tables=custom,
                                                      uninit=uninit), timeout=3000)
    if not quick:
        # four blocks: blocks created in address order, no symbolic expressions / aux entries (stated restriction)
        for kinds in kind_sets[4]:
            chk.add("splitjoin/n4/%s/aux/full/ordered/noexpr" % kinds, h_split_join,
                    params=dict(nblocks=4, kinds=kinds, nexpr=0, custom_tables=False, uninit=False, ordered=True), timeout=3000)
    if quick:
        chk.add("splitjoin/n3/ccd/aux/full/noexpr", h_split_join,
                params=dict(nblocks=3, kinds="ccd", nexpr=0, custom_tables=False, uninit=False), timeout=3000)
    for first in ("c", "d"):
        for k in ((0, 1, 3, 4) if quick else (0, 1, 2, 3, 4, 5)):
            align = 1 << k
            for nop_len in (1, 4):
                for uninit in (False, True):
                    mods = [(max(align, 4), r) for r in range(0, max(align, 4), (max(align, 4) // 4) or 1)] if quick else \
                        [(max(align, 4), r) for r in range(max(align, 4))]
                    for modulo in mods:
                        chk.add("joinalign/%s/a%d/nop%d/%s/A%%%d=%d" % (first, align, nop_len, "uninit" if uninit else "full",
                                                                        modulo[0], modulo[1]),
                                h_join_align, params=dict(first_kind=first, align=align, nop_len=nop_len, uninit=uninit,
                                                          modulo=modulo), timeout=1200)
    seen = set()
    for sid, spec in rewrite_shapes.shapes(tier) + rewrite_shapes.cfi_shapes(tier):
        layout = sid.split("/")[0] + "/" + (sid.split("/")[1] if sid.startswith(("text", "pairs", "b0term")) else "")
        if layout in seen:
            continue
        seen.add(layout)
        import copy
        s2 = copy.deepcopy(spec)
        s2["mods"] = []
        chk.add("noop/" + layout, h_noop_apply, params=dict(spec=s2), timeout=900)
    for kf in ("c", "d"):
        chk.add("noop-uninit/%s" % kf, h_noop_uninit, params=dict(kind_first=kf), timeout=900)
        chk.add("noop-uninit-gap/%s" % kf, h_noop_uninit_gap, params=dict(kind_first=kf), timeout=900)
    for align in ((2, 8, 16) if quick else (2, 4, 8, 16, 32)):
        for patch in ("mov", "label", "byte"):
            chk.add("applyalign/a%d/%s" % (align, patch), h_apply_align, params=dict(align=align, patch=patch, existing_table="yes"),
                    timeout=1200)
    chk.add("applyalign/patch-align16/empty-table", h_apply_align,
            params=dict(align=16, patch="align16", existing_table="empty"), timeout=1200)
    from harness.rewrite_shapes import ins as _ins, dele as _dele
    for b1a in (None, 4, 16):
        for pa in (4, 16):
            chk.add("applyalign2/b1a%s/lead_align%d@0" % (b1a, pa), h_apply_align2,
                    params=dict(b1_align=b1a, b2_align=8, mods=[_ins("b1", 0, "lead_align%d" % pa)], patch_align=pa), timeout=1200)
    chk.add("applyalign2/b1a4/lead_align16@1", h_apply_align2,
            params=dict(b1_align=4, b2_align=8, mods=[_ins("b1", 1, "lead_align16")], patch_align=16), timeout=1200)
    for b2a in (4, 8, 16):
        chk.add("applyalign2/delete-b1/b2a%d" % b2a, h_apply_align2,
                params=dict(b1_align=None, b2_align=b2a, mods=[_dele("b1", 0, 3)], patch_align=None), timeout=1200)
    chk.add("applyalign2/delete-b1-tail/b2a8", h_apply_align2,
            params=dict(b1_align=None, b2_align=8, mods=[_dele("b1", 1, 3)], patch_align=None), timeout=1200)
    for which in ("align_address", "effective_alignment"):
        chk.add("kernel/" + which, h_kernels, params=dict(which=which))
    chk.bounds = {
        "excluded": "a zero-sized block at exactly the offset of another block (split grouping then depends on set iteration order)",
        "split/join": "one interval with 0-%d blocks (code/data mixes) at arbitrary symbolic offsets and sizes (all order, "
                      "overlap, containment, zero-size and gap relations are path splits decided by z3), 1-2 symbolic "
                      "expressions and aux entries at arbitrary offsets, default and custom tables, with and without an "
                      "uninitialised tail; no numeric bounds%s" % (3 if quick else 4, "" if quick else
                                                                    "; the 4-block shapes create blocks in address order and "
                                                                    "carry no expressions"),
        "join with alignment": "2 intervals, alignment 2^0..2^%d, nop size 1 and 4, first block code or data, address residue "
                               "enumerated modulo the alignment, sizes symbolic" % (4 if quick else 5),
        "no-op apply": "every layout of the rewrite harness with no modifications; uninitialised tail variant",
        "alignment through apply()": "x86-64 layout with one aligned block behind an insertion; patch that introduces .align 16 "
                                     "into a module whose alignment table exists but is empty",
        "kernels": "align_address / effective_alignment translated from their current source to 128-bit vectors: "
                   "address < 2^64, alignment and max 2^0..2^32; decided on z3 (API) and /usr/bin/z3 (SMT-LIB), which must agree",
    }
    chk.assumptions = [
        "len/bytearray shims and UUID determinism as in C01; validated by concrete replay",
        "PaddingError is the specified outcome exactly when the fill after a code block is not a whole number of nops",
        "bit-vector kernels: only +, -, &, |, ^, ~ and unary minus are translated; anything else makes the check inconclusive",
    ]
    return chk
