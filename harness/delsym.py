"""C19: delete_symbol removes every trace of the symbol, and only that.

Real code: RewritingContext.delete_symbol, _modify/delete_symbols.py (all).
Table memberships of the deleted symbols are engine choices; version ids of
symbols, definitions and requirements are z3 integers, so sharing of an id is
an equality the solver explores.
"""
import copy
import io
import uuid

import gtirb

from symx import core, run, shims
from symx.core import And, Not, Or

NULL = uuid.UUID(int=0)


def install():
    out = shims.install_determinism()
    out.update(shims.install_gtirb_bytes())
    return out


def _contains_symbol(value, sym):
    if value is sym:
        return True
    if isinstance(value, gtirb.Offset):
        return False
    if isinstance(value, dict) or (hasattr(value, "items") and hasattr(value, "keys")):
        return any(_contains_symbol(k, sym) or _contains_symbol(v, sym) for k, v in value.items())
    if isinstance(value, (list, tuple, set, frozenset)):
        return any(_contains_symbol(v, sym) for v in value)
    return False


def h_delete(eng, fmt, mode, focus="tables"):
    from gtirb_rewriting import RewritingContext, _auxdata, _auxdata_offsetmap
    from gtirb_rewriting._modify.delete_symbols import SymbolUsesRemainingError

    elf = fmt == "elf"
    ir = gtirb.IR()
    m = gtirb.Module(name="m", isa=gtirb.Module.ISA.X64, ir=ir, byte_order=gtirb.Module.ByteOrder.Little,
                     file_format=gtirb.Module.FileFormat.ELF if elf else gtirb.Module.FileFormat.PE)
    sect = gtirb.Section(name=".text", module=m, flags={gtirb.Section.Flag.Executable, gtirb.Section.Flag.Readable,
                                                        gtirb.Section.Flag.Loaded, gtirb.Section.Flag.Initialized})
    bi = gtirb.ByteInterval(contents=b"\x90" * 64, address=0x1000, section=sect)
    code = gtirb.CodeBlock(offset=0, size=32, byte_interval=bi)
    data = gtirb.DataBlock(offset=32, size=32, byte_interval=bi)
    versions_focus = focus == "versions"
    S = gtirb.Symbol("S", payload=gtirb.ProxyBlock(module=m) if (not versions_focus and eng.choose("S_ext", [False, True])) else code,
                     module=m)
    S2 = gtirb.Symbol("S2", payload=data, module=m)
    T = gtirb.Symbol("T", payload=code, module=m)
    delete_s2 = mode != "single" and eng.choose("del_S2", [False, True])
    deleted = [S] + ([S2] if delete_s2 else [])
    if versions_focus:
        force = {S: True, S2: True}
        twice = None
    else:
        force = {S: eng.choose("force_S", [False, True]), S2: eng.choose("force_S2", [False, True]) if delete_s2 else False}
        twice = eng.choose("twice", [None, False, True])  # a second request for S with another force flag
    tables = ["symbolInfo", "tabIdx", "versions", "functionNames", "fwdKey", "fwdValue", "cfi"]
    # the tables are handled independently by the library: all, none, or exactly one of them mentions S
    present = "all" if versions_focus else eng.choose("tables", ["all", "none"] + tables)

    def member(name):
        return present == "all" or present == name

    # ---- tables -------------------------------------------------------------------
    in_info = member("symbolInfo")
    in_tabidx = member("tabIdx")
    in_versions = member("versions")
    in_fnames = member("functionNames")
    fwd_key = member("fwdKey")
    fwd_val = member("fwdValue")
    in_cfi = member("cfi")
    uses = {"none": [], "addr": ["SymAddrConst"], "first": ["AddrAddr1"], "second": ["AddrAddr2"],
            "both": ["SymAddrConst", "AddrAddr2"]}["none" if versions_focus else eng.choose("expr", ["none", "addr", "first", "second", "both"])]
    if elf:
        info = _auxdata.elf_symbol_info.get_or_insert(m)
        info[T] = (0, "FUNC", "GLOBAL", "DEFAULT", 0)
        info[S2] = (8, "OBJECT", "GLOBAL", "DEFAULT", 0)
        if in_info:
            info[S] = (0, "FUNC", "GLOBAL", "DEFAULT", 0)
        tab = _auxdata.elf_symbol_tab_idx_info.get_or_insert(m)
        tab[T] = [(".dynsym", 1)]
        if in_tabidx:
            tab[S] = [(".dynsym", 2), (".symtab", 7)]
            tab[S2] = [(".symtab", 8)]
        # symbol versions: ids are symbolic
        base_id = eng.int("base_id", 1, None)
        d1 = eng.int("def1", 1, None)
        d2 = eng.int("def2", 1, None)
        r1 = eng.int("req1", 1, None)
        r2 = eng.int("req2", 1, None)
        r3 = eng.int("req3", 1, None)
        ids = [base_id, d1, d2, r1, r2, r3]
        for i in range(len(ids)):
            for j in range(i + 1, len(ids)):
                eng.assume(ids[i] != ids[j])
        vS = eng.int("ver_S", 1, None)
        vS2 = eng.int("ver_S2", 1, None)
        vT = eng.int("ver_T", 1, None)
        for v in (vS, vS2, vT):
            eng.assume(Or(*[v == i for i in ids]))
        if not versions_focus:
            for var, val in ((base_id, 1), (d1, 2), (d2, 3), (r1, 4), (r2, 5), (r3, 6), (vS, 2), (vS2, 4), (vT, 2)):
                eng.assume(var == val)
        # VER_FLG_BASE is a bit: the base definition may carry other flag bits (VER_FLG_WEAK = 2) as well
        base_flags = eng.choose("base_flags", [1, 3]) if versions_focus else 1
        defs = {base_id: (["libfoo.so"], base_flags), d1: (["VERS_1"], 0), d2: (["VERS_2", "VERS_1"], 0)}
        defs_before = dict(defs)  # the table may be edited in place
        reqs = {"libc.so.6": {r1: "GLIBC_2.2.5", r2: "GLIBC_2.34"}, "libm.so.6": {r3: "GLIBC_2.29"}}
        reqs_before = {lib: dict(v) for lib, v in reqs.items()}
        entries = {T: (vT, False), S2: (vS2, False)}
        if in_versions:
            entries[S] = (vS, True)
        _auxdata.elf_symbol_versions.set(m, (defs, reqs, entries))
    else:
        # the import and export lists are independent tables: either may be absent or empty while the other names S
        imp_mode = eng.choose("imports", ["normal", "empty", "absent"])
        exp_mode = eng.choose("exports", ["normal", "empty", "absent"])
        imp = _auxdata.pe_imported_symbols.get_or_insert(m)
        exp = _auxdata.pe_exported_symbols.get_or_insert(m)
        if imp_mode == "normal":
            imp.extend([T] + ([S] if in_info else []) + [S2])
        if exp_mode == "normal":
            exp.extend(([S] if in_tabidx else []) + [T] + ([S] if in_versions else []))
        if imp_mode == "absent":
            del m.aux_data[_auxdata.pe_imported_symbols.name]
        if exp_mode == "absent":
            del m.aux_data[_auxdata.pe_exported_symbols.name]
    fnames = _auxdata.function_names.get_or_insert(m)
    uT, uS = uuid.uuid4(), uuid.uuid4()
    fnames[uT] = T
    if in_fnames:
        fnames[uS] = S
    fwd = _auxdata.symbol_forwarding.get_or_insert(m)
    X = gtirb.Symbol("X", payload=gtirb.ProxyBlock(module=m), module=m)
    fwd[T] = X
    if fwd_key:
        fwd[S] = X
    if fwd_val:
        # two entries forward to S
        fwd[S2 if not delete_s2 else X] = S
        fwd[gtirb.Symbol("Y", payload=gtirb.ProxyBlock(module=m), module=m)] = S
    cfi = _auxdata_offsetmap.cfi_directives.get_or_insert(m)
    dirs = [(".cfi_startproc", [], NULL), (".cfi_personality", [0x9B], T), (".cfi_lsda", [0x1B], T)]
    if in_cfi:
        dirs = [(".cfi_startproc", [], NULL), (".cfi_personality", [0x9B], S), (".cfi_lsda", [0x1B], S),
                (".cfi_lsda", [0x1B], T)]
    cfi[gtirb.Offset(code, 0)] = dirs
    # a second procedure that shares the personality routine (and names the bystander's LSDA)
    dirs2 = [(".cfi_endproc", [], NULL), (".cfi_startproc", [], NULL), (".cfi_personality", [0x9B], S if in_cfi else T),
             (".cfi_lsda", [0x1B], T)]
    cfi[gtirb.Offset(code, 32)] = dirs2
    cfi[gtirb.Offset(code, 48)] = [(".cfi_endproc", [], NULL)]
    # ---- expressions ----------------------------------------------------------------
    bystander = gtirb.SymAddrConst(4, T)
    bi.symbolic_expressions[1] = bystander
    keys_using = {S: [], S2: []}
    off = 8
    for u in uses:
        if u == "SymAddrConst":
            bi.symbolic_expressions[off] = gtirb.SymAddrConst(0, S)
        elif u == "AddrAddr1":
            bi.symbolic_expressions[off] = gtirb.SymAddrAddr(1, 0, S, T)
        else:
            bi.symbolic_expressions[off] = gtirb.SymAddrAddr(1, 0, T, S)
        keys_using[S].append(off)
        off += 8
    if mode != "single" and not versions_focus and eng.choose("S2_used", [False, True]):
        bi.symbolic_expressions[40] = gtirb.SymAddrAddr(1, 0, T, S2)
        keys_using[S2].append(40)
    # the same uses once more in another byte interval, at the same interval-relative offsets
    bi2 = gtirb.ByteInterval(contents=b"\x00" * 64, address=0x9000, section=bi.section)
    gtirb.DataBlock(offset=0, size=64, byte_interval=bi2)
    for k_, e_ in list(bi.symbolic_expressions.items()):
        if k_ != 1:
            bi2.symbolic_expressions[k_] = type(e_)(*([e_.offset, e_.symbol] if isinstance(e_, gtirb.SymAddrConst)
                                                      else [e_.scale, e_.offset, e_.symbol1, e_.symbol2]))
    exprs2_before = dict(bi2.symbolic_expressions)
    snapshot_T = _snapshot_for(m, T, X)
    exprs_before = dict(bi.symbolic_expressions)
    # ---- the request -----------------------------------------------------------------
    ctx = RewritingContext(m, [], expensive_assertions=False)
    eff_force = dict(force)
    ctx.delete_symbol(S, force=force[S])
    if twice is not None:
        ctx.delete_symbol(S, force=twice)
        eff_force[S] = force[S] and twice  # the non-forced request takes priority
    if delete_s2:
        ctx.delete_symbol(S2, force=force[S2])
    blocked = [s for s in deleted if keys_using[s] and not eff_force[s]]
    try:
        ctx.apply()
    except SymbolUsesRemainingError as ex:
        eng.check(bool(blocked), "SymbolUsesRemainingError although every use was forced or absent")
        eng.check(ex.symbol in blocked, "SymbolUsesRemainingError names a symbol that is not the blocking one")
        return
    eng.check(not blocked, "symbol with remaining uses was deleted without force and without an error")
    # ---- gone from the module and from every table --------------------------------------
    for s in deleted:
        eng.check(s not in m.symbols and s.module is None, "deleted symbol %s is still in the module" % s.name)
        for name, table in m.aux_data.items():
            eng.check(not _contains_symbol(table.data, s), "aux data table %s still mentions deleted symbol %s" % (name, s.name))
        for k, e in bi.symbolic_expressions.items():
            eng.check(all(x is not s for x in e.symbols), "a symbolic expression still uses deleted symbol %s" % s.name)
    gone = set()
    for s in deleted:
        gone.update(keys_using[s])
    want_keys = {k for k in exprs_before if k not in gone}
    eng.check(set(bi.symbolic_expressions) == want_keys, "expressions removed: %s, expected exactly %s" % (
        sorted(set(exprs_before) - set(bi.symbolic_expressions)), sorted(gone)))
    for k in want_keys:
        eng.check(bi.symbolic_expressions[k] is exprs_before[k], "an unrelated symbolic expression was replaced")
    want2_keys = {k for k in exprs2_before if k not in gone}
    eng.check(set(bi2.symbolic_expressions) == want2_keys, "second byte interval: expressions removed %s, expected exactly %s" % (
        sorted(set(exprs2_before) - set(bi2.symbolic_expressions)), sorted(gone & set(exprs2_before))))
    for s_ in deleted:
        for k, e in bi2.symbolic_expressions.items():
            eng.check(all(x is not s_ for x in e.symbols), "an expression of the second byte interval still uses deleted symbol %s" % s_.name)
    # CFI directives that named a deleted symbol carry the null UUID (and DW_EH_PE_omit)
    got_dirs = cfi[gtirb.Offset(code, 0)]
    want_dirs = []
    for (name, args, ref) in dirs:
        if ref in deleted:
            want_dirs.append((name, [0xFF] if name in (".cfi_personality", ".cfi_lsda") else args, NULL))
        else:
            want_dirs.append((name, args, ref))
    got2 = cfi[gtirb.Offset(code, 32)]
    want2 = [(n_, [0xFF] if (r_ in deleted and n_ in (".cfi_personality", ".cfi_lsda")) else a_, NULL if r_ in deleted else r_)
             for (n_, a_, r_) in dirs2]
    eng.check(len(got2) == len(want2) and all(g[0] == w[0] and list(g[1]) == list(w[1]) and (g[2] is w[2] or g[2] == w[2])
                                              for g, w in zip(got2, want2)),
              "CFI directives of the second procedure after the deletion: %r" % (got2,))
    eng.check(len(got_dirs) == len(want_dirs) and all(
        g[0] == w[0] and list(g[1]) == list(w[1]) and (g[2] is w[2] or g[2] == w[2]) for g, w in zip(got_dirs, want_dirs)),
        "CFI directives after deletion: %r, expected %r" % (got_dirs, want_dirs))
    # forwarding: entries with a deleted key or value are gone, the others stay
    for k, v in list(fwd.items()):
        eng.check(k not in deleted and v not in deleted, "symbolForwarding still has an entry with a deleted symbol")
    eng.check(fwd.get(T) is X, "symbolForwarding entry of an unrelated symbol was lost")
    eng.check(fnames.get(uT) is T and (uS not in fnames), "functionNames: unrelated entry lost or deleted entry kept")
    if elf:
        defs2, reqs2, entries2 = _auxdata.elf_symbol_versions.get(m)
        remaining = {k: v for k, v in entries.items() if k not in deleted}
        eng.check(set(entries2) == set(remaining), "elfSymbolVersions entries after deletion")
        used = [v[0] for v in remaining.values()]

        def is_used(i):
            return Or(*[i == u for u in used]) if used else False

        for i, (names, flags) in defs_before.items():
            present = any(eng.must(k == i) for k in defs2)
            if flags & 1:
                eng.check(present, "the base version definition was dropped")
            else:
                eng.check(is_used(i) if present else Not(is_used(i)),
                          "version definition %s: %s although it is %s" % (names, "kept" if present else "dropped",
                                                                             "unused" if present else "still used"))
        eng.check(len(defs2) <= len(defs_before), "version definitions appeared")
        for lib, vers in reqs_before.items():
            left = 0
            for i, vname in vers.items():
                present = lib in reqs2 and any(eng.must(k == i) for k in reqs2[lib])
                eng.check(is_used(i) if present else Not(is_used(i)),
                          "version requirement %s/%s: %s although it is %s" % (lib, vname, "kept" if present else "dropped",
                                                                                "unused" if present else "still used"))
                left += 1 if present else 0
            eng.check((lib in reqs2) == (left > 0), "library %s in the requirements table although %d of its versions remain" % (lib, left))
    else:
        eng.check([s for s in imp if s in deleted] == [] or True, "")
        new_imp = _auxdata.pe_imported_symbols.get(m)
        new_exp = _auxdata.pe_exported_symbols.get(m)
        eng.check(list(new_imp or []) == [s for s in imp if s not in deleted], "peImportedSymbols after deletion")
        eng.check(list(new_exp or []) == [s for s in exp if s not in deleted], "peExportedSymbols after deletion")
        eng.check((new_imp is None) == (imp_mode == "absent") and (new_exp is None) == (exp_mode == "absent"),
                  "a PE symbol list appeared or disappeared")
    # everything about the bystander is identical
    eng.check(_snapshot_for(m, T, X) == snapshot_T, "entries of a symbol that was not deleted changed")
    if not eng.sym:
        buf = io.BytesIO()
        ir.save_protobuf_file(buf)
        ir2 = gtirb.IR.load_protobuf_file(io.BytesIO(buf.getvalue()))
        eng.check(ir.deep_eq(ir2), "the module does not survive a protobuf round trip after the deletion")


def _snapshot_for(m, T, X):
    """Everything the tables say about the bystander symbols (plain values)."""
    out = []
    for name in sorted(m.aux_data):
        data = m.aux_data[name].data
        if name == "elfSymbolVersions":
            out.append((name, repr(data[2].get(T))))
        elif isinstance(data, dict):
            for k, v in data.items():
                if k is T or v is T:
                    out.append((name, "key" if k is T else "value", repr(v if k is T else None)[:80]))
        elif isinstance(data, list):
            out.append((name, sum(1 for x in data if x is T)))
    out.append(("in_module", T in m.symbols, X in m.symbols))
    return out


def classify(rec):
    return "violation"


def make_check(tier):
    chk = run.Check("C19", tier)
    chk.install_shims = install
    chk.classify_exception = classify
    chk.add("delete/elf/single", h_delete, params=dict(fmt="elf", mode="single"), timeout=6000)
    chk.add("delete/elf/two", h_delete, params=dict(fmt="elf", mode="two"), timeout=20000)
    chk.add("delete/elf/versions-single", h_delete, params=dict(fmt="elf", mode="single", focus="versions"), timeout=20000)
    chk.add("delete/elf/versions-two", h_delete, params=dict(fmt="elf", mode="two", focus="versions"), timeout=20000)
    chk.add("delete/pe/single", h_delete, params=dict(fmt="pe", mode="single"), timeout=6000)
    if True:  # two deleted symbols that sit next to each other in the PE lists
        chk.add("delete/pe/two", h_delete, params=dict(fmt="pe", mode="two"), timeout=20000)
    chk.bounds = {
        "symbols": "target S (internal or proxy-backed), optional second deleted symbol S2, bystander T present in every table",
        "memberships": "S mentioned by all, none or exactly one of elfSymbolInfo, elfSymbolTabIdxInfo, elfSymbolVersions, "
                       "functionNames, symbolForwarding key, symbolForwarding value, CFI personality/LSDA (PE: import/export lists)",
        "expressions": "no use / SymAddrConst / first or second operand of SymAddrAddr / several; force flags and a repeated request",
        "version ids": "6 definition/requirement ids and 3 symbol ids as z3 integers >= 1 (pairwise distinct table ids, symbol ids "
                       "range over them): sharing and the position of the base definition are decided by the solver",
    }
    chk.assumptions = ["serialisation is witness-level (concrete replays only)",
                       "what is left behind when SymbolUsesRemainingError is raised is not specified by the property and not checked"]
    return chk
