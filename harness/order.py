"""C11, hash-seed / UUID clause: the result of a rewrite does not depend on the iteration order of hash-ordered
collections.  See symx/ndorder.py for the mechanism (AST import hook over the current /repo source).

Every scenario is run three times over the same symbolic variables:
  Z  plain (the wrapper is the identity),
  A  tracking on, orders as found  - learns the iteration sites the scenario reaches (must equal Z: harness sanity),
  B  one site presented in another order (reversed, or rotated by one when it has >= 3 elements) - the (site, order)
     pair is an enumerated choice of the engine, all other numbers stay symbolic,
and A and B must be the same module up to UUID renaming (same comparison as the registration-order clause; temporary
label names compared exactly).
"""
import gtirb

from harness import srh
from symx import core, ndorder


class HarnessError(Exception):
    pass


def _apply(sc, spec, known_crash):
    sc.register()
    try:
        sc.apply()
    except AssertionError as ex:
        if "modifications overlap" in str(ex) or known_crash(spec, ex):
            raise core.Abort()
        raise


def explore_orders(eng, run_once, compare, label):
    """run_once() -> result; compare(eng, a, b, label)."""
    if not ndorder.installed():
        raise HarnessError("iteration-order instrumentation is not installed")
    ndorder.STATE.start()
    try:
        a = run_once()
    finally:
        hits = ndorder.STATE.stop()
    choices = [("-", "sanity")]
    for site in sorted(hits):
        choices.append((site, "rev"))
        if hits[site] >= 3:
            choices.append((site, "rot"))
    site, mode = eng.choose("order", choices)
    eng.note("order", "%s %s" % (site, mode))
    eng.note("sites", len(hits))
    if mode == "sanity":
        z = run_once()
        try:
            compare(eng, z, a, "%s tracking on/off:" % label)
        except core.Violation as v:
            raise HarnessError("the instrumented run differs from the plain run: %s" % v)
        eng.ok("sanity")
        return
    ndorder.STATE.start({site: mode})
    try:
        b = run_once()
    finally:
        ndorder.STATE.stop()
    compare(eng, a, b, "C11 %s: unordered collection at %s iterated %s:" % (
        label, site, "in reverse" if mode == "rev" else "rotated by one"))
    eng.ok("order")


def h_order(eng, spec):
    from harness import rewrite as R
    eng.reuse_vars = True

    def run_once():
        sc = srh.Scenario(eng, spec)
        _apply(sc, spec, R.known_crash)
        return R.snapshot(sc, True)

    explore_orders(eng, run_once, R.compare_snapshots, "rewrite")


# ---------------------------------------------------------------------------
# prologue / epilogue text: register sets (Constraints.clobbers_registers is a set, caller_saved_registers() returns a
# set) must be spilled in an order that does not depend on set iteration
def h_order_abi(eng, abiname, preserve, nscratch, clobbers, reads, flags, align):
    from harness import abi_cpu
    from gtirb_rewriting import Constraints
    from gtirb_rewriting.abi import ABI

    isa, fmt = abi_cpu.ABIS[abiname]

    class Desc:
        pass

    d = Desc()
    d.isa, d.file_format = isa, fmt

    def run_once():
        abi = ABI.get(d)
        cons = Constraints(clobbers_registers=set(clobbers), reads_registers=set(reads), clobbers_flags=flags,
                           scratch_registers=nscratch, preserve_caller_saved_registers=preserve, align_stack=align)
        regs = abi._allocate_patch_registers(cons)
        pro, epi, adj = abi._create_prologue_and_epilogue(cons, regs, False)
        return (tuple(r.name for r in regs.clobbered_registers), tuple(r.name for r in regs.scratch_registers),
                tuple(x.code for x in pro), tuple(x.code for x in epi), adj)

    def compare(eng, a, b, label):
        eng.check(a == b, "%s prologue/epilogue differ: %r vs %r" % (label, a, b))

    explore_orders(eng, run_once, compare, "ABI %s" % abiname)


# ---------------------------------------------------------------------------
# a whole rewrite with a CallPatch-like patch (preserve_caller_saved_registers, scratch registers, clobbers) on small
# concrete modules of several ISAs: the bytes must not depend on iteration orders
def h_order_callpatch(eng, isa, fmt):
    import gtirb_functions
    import gtirb_rewriting
    from gtirb_rewriting import Constraints, Patch, RewritingContext
    from gtirb_rewriting.patches import CallPatch

    ISA = {"x64": gtirb.Module.ISA.X64, "arm64": gtirb.Module.ISA.ARM64, "ia32": gtirb.Module.ISA.IA32}[isa]
    FMT = {"elf": gtirb.Module.FileFormat.ELF, "pe": gtirb.Module.FileFormat.PE}[fmt]
    code = {"x64": b"\x90\x90\xc3", "ia32": b"\x90\x90\xc3", "arm64": b"\x1f\x20\x03\xd5" * 2 + b"\xc0\x03\x5f\xd6"}[isa]
    step = 4 if isa == "arm64" else 1

    def run_once():
        ir = gtirb.IR()
        m = gtirb.Module(name="m", isa=ISA, file_format=FMT, ir=ir, byte_order=gtirb.Module.ByteOrder.Little)
        sect = gtirb.Section(name=".text", module=m, flags={gtirb.Section.Flag.Readable, gtirb.Section.Flag.Executable,
                                                            gtirb.Section.Flag.Loaded, gtirb.Section.Flag.Initialized})
        bi = gtirb.ByteInterval(contents=code * 2, address=0x1000, section=sect)
        b0 = gtirb.CodeBlock(offset=0, size=len(code), byte_interval=bi)
        b1 = gtirb.CodeBlock(offset=len(code), size=len(code), byte_interval=bi)
        ir.cfg.add(gtirb.Edge(b0, gtirb.ProxyBlock(module=m), gtirb.Edge.Label(gtirb.Edge.Type.Return)))
        ir.cfg.add(gtirb.Edge(b1, gtirb.ProxyBlock(module=m), gtirb.Edge.Label(gtirb.Edge.Type.Return)))
        gtirb.Symbol("f", payload=b0, module=m)
        gtirb.Symbol("g", payload=b1, module=m)
        gtirb.Symbol("g_alias", payload=b1, module=m)
        callee = gtirb.Symbol("callee", payload=gtirb.ProxyBlock(module=m), module=m)
        ctx = RewritingContext(m, [])
        ctx.insert_at(b0, step, CallPatch(callee, [1, 2], align_stack=True))
        ctx.insert_at(b1, 0, CallPatch(callee, [], preserve_caller_saved_registers=True))
        ctx.apply()
        data = {s.name: (s.referent.address if isinstance(s.referent, gtirb.ByteBlock) else None) for s in m.symbols}
        blocks = sorted((b.address, b.size, type(b).__name__) for b in m.byte_blocks)
        contents = b"".join(bytes(i.contents) for i in sorted(m.byte_intervals, key=lambda i: i.address))
        edges = sorted((e.source.address, getattr(e.target, "address", None) or -1, e.label.type.name) for e in ir.cfg)
        return data, blocks, contents.hex(), edges

    def compare(eng, a, b, label):
        for what, x, y in zip(("symbols", "blocks", "bytes", "edges"), a, b):
            eng.check(x == y, "%s %s differ: %r vs %r" % (label, what, x, y))

    explore_orders(eng, run_once, compare, "CallPatch %s-%s" % (isa, fmt))
