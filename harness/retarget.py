"""C18: retarget_symbol_uses is complete and precise.

Real code: RewritingContext.retarget_symbol_uses (argument validation),
_modify/retarget.py (all), ABI._sym_expr_rules.  The decoder is the real
capstone decoder, so instruction bytes and addresses are concrete; addends are
z3 integers; use kinds, internal/external combinations, PIE, file format and
the request set are enumerated through engine choices.
"""
import uuid

import gtirb

from symx import core, run, shims
from symx.core import And

A_ = gtirb.SymbolicExpression.Attribute
NULL = uuid.UUID(int=0)
ET = gtirb.Edge.Type


def install():
    return shims.install_determinism()


def expected_attrs(fmt, pie, access, internal):
    """Independent transcription of the ABI's internal/external attribute table (x86-64)."""
    if fmt == "elf" and pie:
        if access == "code_ref":
            return set() if internal else {A_.GOT, A_.PCREL}
        if access == "control_flow":
            return set() if internal else {A_.PLT}
        return None  # data: no rule, attributes unchanged
    if fmt == "elf" and access in ("control_flow", "code_ref"):
        return set() if internal else {A_.PLT}
    return None  # PE: the ABI defines no conversion rule, attributes stay as they are


def lbl(t, cond=False, direct=True):
    return gtirb.Edge.Label(type=t, conditional=cond, direct=direct)


def h_retarget(eng, fmt, pie, a_int, b_int, request, reverse=False, return_edges=True):
    from gtirb_rewriting import RewritingContext, _auxdata, _auxdata_offsetmap
    import gtirb_functions

    ir = gtirb.IR()
    m = gtirb.Module(name="m", isa=gtirb.Module.ISA.X64, ir=ir, byte_order=gtirb.Module.ByteOrder.Little,
                     file_format=gtirb.Module.FileFormat.ELF if fmt == "elf" else gtirb.Module.FileFormat.PE)
    _auxdata.binary_type.set(m, ["DYN"] if pie else ["EXEC"])
    text = gtirb.Section(name=".text", module=m, flags={gtirb.Section.Flag.Executable, gtirb.Section.Flag.Readable,
                                                        gtirb.Section.Flag.Loaded, gtirb.Section.Flag.Initialized})
    dsec = gtirb.Section(name=".data", module=m, flags={gtirb.Section.Flag.Writable, gtirb.Section.Flag.Readable,
                                                        gtirb.Section.Flag.Loaded, gtirb.Section.Flag.Initialized})
    CALL = b"\xe8\x00\x00\x00\x00"
    JMP = b"\xe9\x00\x00\x00\x00"
    LEA = b"\x48\x8d\x05\x00\x00\x00\x00"
    NOP = b"\x90"
    RET = b"\xc3"
    # layout: [u_call: nop call X][u_jmp: nop jmp X][u_lea: lea X; ret][v_*: the same for the bystander][fa: ret][fb: ret][fc: ret]
    ICALL = b"\xff\x15\x00\x00\x00\x00"  # call [rip+X]
    IJMP = b"\xff\x25\x00\x00\x00\x00"  # jmp [rip+X]: a tail call through the GOT
    chunks = [("u_call", NOP + CALL), ("u_next", NOP), ("u_jmp", NOP + JMP), ("u_lea", LEA + RET),
              ("u_icall", NOP + ICALL), ("u_inext", NOP + RET), ("u_ijmp", NOP + IJMP),
              ("u_loop", NOP + b"\xe2\x00"), ("u_lnext", NOP + RET),
              ("v_call", NOP + CALL), ("v_next", NOP + RET), ("v_lea", LEA + RET),
              # a conditional jump whose target is the physically next block: Branch and Fallthrough lead to the same block
              ("u_jfa", NOP + b"\x0f\x84\x00\x00\x00\x00"),
              ("fa", NOP + RET), ("fb", NOP + RET), ("fc", NOP + RET)]
    contents = b"".join(c for _, c in chunks)
    bi = gtirb.ByteInterval(contents=contents, address=0x1000, section=text)
    blk = {}
    off = 0
    for name, c in chunks:
        blk[name] = gtirb.CodeBlock(offset=off, size=len(c), byte_interval=bi)
        off += len(c)
    dbi = gtirb.ByteInterval(contents=b"\x00" * 32, address=0x8000, section=dsec)
    d_word = gtirb.DataBlock(offset=0, size=16, byte_interval=dbi)
    d_obj = gtirb.DataBlock(offset=16, size=16, byte_interval=dbi)

    def make_symbol(name, internal, block):
        if internal:
            return gtirb.Symbol(name, payload=block, module=m)
        return gtirb.Symbol(name, payload=gtirb.ProxyBlock(module=m), module=m)

    A = make_symbol("A", a_int, blk["fa"])
    if request == "alias":
        # B is another name for the very place A designates (same block / same proxy): uses move to B, edges stay put
        B = gtirb.Symbol("B", payload=A.referent, module=m)
        b_int = a_int
    else:
        B = make_symbol("B", b_int, blk["fb"])
    C = make_symbol("C", True, blk["fc"])
    T = make_symbol("T", a_int, blk["fc"])  # bystander with the same kinds of uses and the same internal/external status
    D = gtirb.Symbol("D", payload=d_obj, module=m)  # a data object
    syms = {"A": A, "B": B, "C": C, "T": T, "D": D}

    def attrs(sym_internal, access):
        e = expected_attrs(fmt, pie, access, sym_internal)
        return set() if e is None else e

    addend_lea = eng.int("addend_lea")
    addend_data = eng.int("addend_data")
    uses = {}  # name -> (interval, offset, access, target symbol name, addend)

    def use(name, interval, offset, access, target, addend, internal):
        expr = gtirb.SymAddrConst(addend, syms[target], attrs(internal, access))
        interval.symbolic_expressions[offset] = expr
        uses[name] = (interval, offset, access, target, addend, expr)

    data_only = request in ("to_data", "from_data")
    src = "D" if request == "from_data" else "A"
    if not data_only:
        use("u_call", bi, blk["u_call"].offset + 2, "control_flow", "A", 0, a_int)
        use("u_jmp", bi, blk["u_jmp"].offset + 2, "control_flow", "A", 0, a_int)
        # call through the GOT: an indirect transfer whose resolved edge leads to A
        e = gtirb.SymAddrConst(0, A, {A_.GOT, A_.PCREL} if (fmt == "elf" and pie) else set())
        bi.symbolic_expressions[blk["u_icall"].offset + 3] = e
        uses["u_icall"] = (bi, blk["u_icall"].offset + 3, "control_flow", "A", 0, e)
        e2 = gtirb.SymAddrConst(0, A, {A_.GOT, A_.PCREL} if (fmt == "elf" and pie) else set())
        bi.symbolic_expressions[blk["u_ijmp"].offset + 3] = e2
        uses["u_ijmp"] = (bi, blk["u_ijmp"].offset + 3, "control_flow", "A", 0, e2)
        use("u_jfa", bi, blk["u_jfa"].offset + 3, "control_flow", "A", 0, a_int)
        # loop A: a relative branch that capstone files under BRANCH_RELATIVE only
        use("u_loop", bi, blk["u_loop"].offset + 2, "control_flow", "A", 0, a_int)
    use("u_lea", bi, blk["u_lea"].offset + 3, "code_ref", src, addend_lea, True if src == "D" else a_int)
    use("u_data", dbi, 0, "data", src, addend_data, True if src == "D" else a_int)
    use("v_call", bi, blk["v_call"].offset + 2, "control_flow", "T", 0, a_int)
    use("v_lea", bi, blk["v_lea"].offset + 3, "code_ref", "T", addend_lea, a_int)
    use("v_data", dbi, 8, "data", "T", addend_data, a_int)
    cfg = ir.cfg

    def ref(s):
        return s.referent

    if not data_only:
        cfg.add(gtirb.Edge(blk["u_call"], ref(A), lbl(ET.Call)))
        cfg.add(gtirb.Edge(blk["u_jmp"], ref(A), lbl(ET.Branch)))
        cfg.add(gtirb.Edge(blk["u_icall"], ref(A), lbl(ET.Call, direct=False)))
        cfg.add(gtirb.Edge(blk["u_ijmp"], ref(A), lbl(ET.Branch, direct=False)))
        cfg.add(gtirb.Edge(blk["u_loop"], ref(A), lbl(ET.Branch, cond=True)))
        cfg.add(gtirb.Edge(blk["u_jfa"], ref(A), lbl(ET.Branch, cond=True)))
    cfg.add(gtirb.Edge(blk["u_loop"], blk["u_lnext"], lbl(ET.Fallthrough)))
    cfg.add(gtirb.Edge(blk["u_jfa"], blk["fa"], lbl(ET.Fallthrough)))
    cfg.add(gtirb.Edge(blk["u_call"], blk["u_next"], lbl(ET.Fallthrough)))
    cfg.add(gtirb.Edge(blk["u_next"], blk["u_jmp"], lbl(ET.Fallthrough)))
    cfg.add(gtirb.Edge(blk["u_icall"], blk["u_inext"], lbl(ET.Fallthrough)))
    cfg.add(gtirb.Edge(blk["v_call"], ref(T), lbl(ET.Call)))
    cfg.add(gtirb.Edge(blk["v_call"], blk["v_next"], lbl(ET.Fallthrough)))
    rp = {}
    for n in ("u_lea", "v_next", "v_lea", "fb", "u_inext", "u_lnext"):
        rp[n] = gtirb.ProxyBlock(module=m)
        cfg.add(gtirb.Edge(blk[n], rp[n], lbl(ET.Return)))
    if a_int:
        cfg.add(gtirb.Edge(blk["fa"], blk["u_next"], lbl(ET.Return)))
        cfg.add(gtirb.Edge(blk["fc"], blk["v_next"], lbl(ET.Return)))
    else:
        for n in ("fa", "fc"):
            rp[n] = gtirb.ProxyBlock(module=m)
            cfg.add(gtirb.Edge(blk[n], rp[n], lbl(ET.Return)))
    fb = _auxdata.function_blocks.get_or_insert(m)
    fe = _auxdata.function_entries.get_or_insert(m)
    fn = _auxdata.function_names.get_or_insert(m)
    for name, blocks, s in (("U", ["u_call", "u_next", "u_jmp", "u_lea", "u_icall", "u_inext", "u_ijmp", "u_loop", "u_lnext", "u_jfa"], None), ("V", ["v_call", "v_next", "v_lea"], None),
                            ("FA", ["fa"], A if a_int else None), ("FB", ["fb"], B if b_int and request != "alias" else None),
                            ("FC", ["fc"], C)):
        u = uuid.uuid4()
        fb[u] = {blk[b] for b in blocks}
        fe[u] = {blk[blocks[0]]}
        fn[u] = s or gtirb.Symbol("fn_" + name, payload=blk[blocks[0]], module=m)
    cfi = _auxdata_offsetmap.cfi_directives.get_or_insert(m)
    cfi[gtirb.Offset(blk["u_call"], 0)] = [(".cfi_startproc", [], NULL), (".cfi_personality", [0x9B], A), (".cfi_lsda", [0x1B], A),
                                           (".cfi_lsda", [0x1B], T)]
    cfi[gtirb.Offset(blk["u_lea"], 8)] = [(".cfi_endproc", [], NULL)]
    fwd = _auxdata.symbol_forwarding.get_or_insert(m)
    F1 = gtirb.Symbol("F1", payload=gtirb.ProxyBlock(module=m), module=m)
    F2 = gtirb.Symbol("F2", payload=gtirb.ProxyBlock(module=m), module=m)
    F3 = gtirb.Symbol("F3", payload=gtirb.ProxyBlock(module=m), module=m)
    fwd[F1] = A
    fwd[F2] = T
    fwd[F3] = A  # several copies forwarding to one symbol (environ / __environ / _environ)
    funcs = gtirb_functions.Function.build_functions(m)
    ctx = RewritingContext(m, funcs, expensive_assertions=False)
    # ---- invalid requests ---------------------------------------------------------------
    if request == "invalid":
        other = gtirb.Module(name="o", isa=gtirb.Module.ISA.X64, file_format=gtirb.Module.FileFormat.ELF, ir=gtirb.IR())
        foreign = gtirb.Symbol("Z", payload=gtirb.ProxyBlock(module=other), module=other)
        noref = gtirb.Symbol("N", module=m)
        for old, new, why in ((foreign, B, "foreign old symbol"), (A, foreign, "foreign new symbol"), (A, noref, "new symbol without referent")):
            try:
                ctx.retarget_symbol_uses(old, new)
                eng.fail("invalid request accepted: " + why)
            except ValueError:
                eng.ok()
        ctx.retarget_symbol_uses(A, B)
        try:
            ctx.retarget_symbol_uses(A, C)
            eng.fail("retargeting the same symbol twice was accepted")
        except ValueError:
            eng.ok()
        return
    if request == "into_data":
        from gtirb_rewriting._modify.edit import AmbiguousIRError
        ctx.retarget_symbol_uses(A, D)
        try:
            ctx.apply()
            eng.fail("retargeting control flow into a data block was accepted")
        except AmbiguousIRError:
            eng.ok()
        return
    mapping = {"one": {"A": "B"}, "alias": {"A": "B"}, "chain": {"A": "B", "B": "C"}, "two": {"A": "B", "T": "C"}, "with_insert": {"A": "B"},
               "to_data": {"A": "D"}, "from_data": {"D": "B"}}[request]
    if request == "chain":
        # B itself has a use that must move to C
        use("w_call", bi, blk["v_next"].offset, "data", "B", 0, b_int) if False else None
        dbi.symbolic_expressions[24] = gtirb.SymAddrConst(7, B, set())
        uses["w_data"] = (dbi, 24, "data", "B", 7, dbi.symbolic_expressions[24])
    # requests for different symbols: the order of registration must not matter (C11)
    for old, new in (reversed(list(mapping.items())) if reverse else mapping.items()):
        ctx.retarget_symbol_uses(syms[old], syms[new])
    shift = 0
    if request == "with_insert":
        import gtirb_rewriting
        ctx.insert_at(blk["u_call"], 0, gtirb_rewriting.Patch.from_function(
            gtirb_rewriting.patch_constraints()(lambda c: "nop; nop")))
        shift = 2
    edges_before = {(e.source, e.target, e.label.type) for e in cfg}
    ctx.apply()
    internal = {"A": a_int, "B": b_int, "C": True, "T": a_int, "D": True}
    # ---- expressions -------------------------------------------------------------------------
    for name, (iv, off, access, target, addend, expr) in uses.items():
        pos = off + (shift if iv is bi else 0)
        now = iv.symbolic_expressions.get(pos)
        eng.check(now is not None, "use %s: the expression disappeared" % name)
        if target in mapping:
            new = mapping[target]
            eng.check(isinstance(now, gtirb.SymAddrConst) and now.symbol is syms[new],
                      "use %s still refers to %s" % (name, now.symbol.name))
            eng.check(now.offset == addend, "use %s: the addend changed" % name)
            want = expected_attrs(fmt, pie, access, internal[new])
            if want is None or expr.attributes != (expected_attrs(fmt, pie, access, internal[target]) or set()):
                want = expr.attributes
            eng.check(now.attributes == want, "use %s (%s): attributes %s, expected %s" % (
                name, access, sorted(map(str, now.attributes)), sorted(map(str, want))))
        else:
            eng.check(now is expr, "use %s of a symbol that was not retargeted was touched" % name)
    n_exprs = sum(len(iv.symbolic_expressions) for iv in m.byte_intervals)
    eng.check(n_exprs == len(uses), "number of symbolic expressions changed")
    # ---- CFI and forwarding -----------------------------------------------------------------------
    got = cfi[gtirb.Offset(blk["u_call"], 0)]
    want_syms = [NULL, syms[mapping.get("A", "A")], syms[mapping.get("A", "A")], syms[mapping.get("T", "T")]]
    eng.check([d[2] for d in got] == want_syms and [d[0] for d in got] == [".cfi_startproc", ".cfi_personality", ".cfi_lsda", ".cfi_lsda"]
              and [list(d[1]) for d in got] == [[], [0x9B], [0x1B], [0x1B]], "CFI directives after retargeting: %r" % (got,))
    eng.check(fwd[F1] is syms[mapping.get("A", "A")] and fwd[F2] is syms[mapping.get("T", "T")]
              and fwd[F3] is syms[mapping.get("A", "A")] and len(fwd) == 3,
              "symbolForwarding targets after retargeting")
    # ---- control flow ------------------------------------------------------------------------------
    def edges_of(b, typ):
        return {e.target for e in b.outgoing_edges if e.label.type == typ}

    if data_only:
        eng.check({(e.source, e.target, e.label.type) for e in cfg} == edges_before, "retargeting data references changed the CFG")
        return
    eng.check(edges_of(blk["u_call"], ET.Call) == {ref(syms[mapping["A"]])}, "call edge of the retargeted call")
    eng.check(edges_of(blk["u_jmp"], ET.Branch) == {ref(syms[mapping["A"]])}, "branch edge of the retargeted jump")
    eng.check(edges_of(blk["u_icall"], ET.Call) == {ref(syms[mapping["A"]])}, "call edge of the retargeted call through the GOT")
    eng.check(edges_of(blk["u_ijmp"], ET.Branch) == {ref(syms[mapping["A"]])}, "branch edge of the retargeted jump through the GOT")
    eng.check(edges_of(blk["u_loop"], ET.Branch) == {ref(syms[mapping["A"]])}, "branch edge of the retargeted loop instruction")
    eng.check(edges_of(blk["u_jfa"], ET.Branch) == {ref(syms[mapping["A"]])}, "branch edge of the retargeted jump to the next block")
    eng.check(edges_of(blk["u_jfa"], ET.Fallthrough) == {blk["fa"]} or request == "with_insert",
              "the jump to the next block no longer falls through to the physically next block after its target was retargeted")
    eng.check(edges_of(blk["v_call"], ET.Call) == {ref(syms[mapping.get("T", "T")])}, "call edge of the bystander call")
    other_before = {(s, t, ty) for (s, t, ty) in edges_before if ty in (ET.Fallthrough,)}
    eng.check(other_before <= {(e.source, e.target, e.label.type) for e in cfg} or request == "with_insert",
              "fallthrough edges were changed by retargeting")
    if not return_edges:
        return  # C11 reuses these assertions for registration orders; the return-edge clause is C18's (known finding there)
    if request == "alias":
        # every edge (return edges included) is exactly what it was
        eng.check({(e.source, e.target, e.label.type) for e in cfg} == edges_before,
                  "retargeting to an alias of the same block changed the CFG: lost %r, new %r" % (
                      sorted(str(x) for x in edges_before - {(e.source, e.target, e.label.type) for e in cfg}),
                      sorted(str(x) for x in {(e.source, e.target, e.label.type) for e in cfg} - edges_before)))
        return
    # return edges follow the calls
    new_callee = syms[mapping["A"]]
    if isinstance(new_callee.referent, gtirb.CodeBlock):
        rets = edges_of(new_callee.referent, ET.Return)
        eng.check(blk["u_next"] in rets, "the new callee does not return to the retargeted call's return site",
                  finding="C18-return-edges-not-updated")
    if a_int:
        rets = edges_of(blk["fa"], ET.Return)
        eng.check(blk["u_next"] not in rets, "the old callee still returns to the retargeted call's return site",
                  finding="C18-return-edges-not-updated")


def h_retarget_arm64(eng, pie, a_int, b_int):
    """Fixed-width ISA: the operand of an instruction starts at the instruction's first byte, so the expression of the
    second instruction of a block sits exactly where the first one ends."""
    from gtirb_rewriting import RewritingContext, _auxdata

    ir = gtirb.IR()
    m = gtirb.Module(name="m", isa=gtirb.Module.ISA.ARM64, ir=ir, byte_order=gtirb.Module.ByteOrder.Little,
                     file_format=gtirb.Module.FileFormat.ELF)
    _auxdata.binary_type.set(m, ["DYN"] if pie else ["EXEC"])
    text = gtirb.Section(name=".text", module=m, flags={gtirb.Section.Flag.Executable, gtirb.Section.Flag.Readable,
                                                        gtirb.Section.Flag.Loaded, gtirb.Section.Flag.Initialized})
    NOP, BL, RET = bytes.fromhex("1f2003d5"), bytes.fromhex("00000094"), bytes.fromhex("c0035fd6")
    ADRP, ADD = bytes.fromhex("00000090"), bytes.fromhex("00000091")
    chunks = [("u_call", NOP + BL), ("u_next", NOP + RET), ("u_ref", ADRP + ADD + RET), ("v_call", NOP + BL),
              ("v_next", RET), ("fa", RET), ("fb", RET), ("fc", RET)]
    bi = gtirb.ByteInterval(contents=b"".join(c for _, c in chunks), address=0x10000, section=text)
    blk, off = {}, 0
    for name, c in chunks:
        blk[name] = gtirb.CodeBlock(offset=off, size=len(c), byte_interval=bi)
        off += len(c)

    def make_symbol(name, internal, block):
        return gtirb.Symbol(name, payload=block if internal else gtirb.ProxyBlock(module=m), module=m)
    A = make_symbol("A", a_int, blk["fa"])
    B = make_symbol("B", b_int, blk["fb"])
    T = make_symbol("T", a_int, blk["fc"])

    def code_ref_attrs(internal, lo12):
        # independent transcription of the ARM64 PIE table: page reference -> GOT when external, :lo12: part keeps LO12
        if not pie:
            return {A_.LO12} if lo12 else set()
        base = {A_.LO12} if lo12 else set()
        return base if internal else base | {A_.GOT}
    addend = eng.int("addend")
    e_call = gtirb.SymAddrConst(0, A, set())
    e_adrp = gtirb.SymAddrConst(addend, A, code_ref_attrs(a_int, False))
    e_add = gtirb.SymAddrConst(addend, A, code_ref_attrs(a_int, True))
    e_vcall = gtirb.SymAddrConst(0, T, set())
    bi.symbolic_expressions[blk["u_call"].offset + 4] = e_call
    bi.symbolic_expressions[blk["u_ref"].offset] = e_adrp
    bi.symbolic_expressions[blk["u_ref"].offset + 4] = e_add
    bi.symbolic_expressions[blk["v_call"].offset + 4] = e_vcall
    cfg = ir.cfg
    cfg.add(gtirb.Edge(blk["u_call"], A.referent, lbl(ET.Call)))
    cfg.add(gtirb.Edge(blk["u_call"], blk["u_next"], lbl(ET.Fallthrough)))
    cfg.add(gtirb.Edge(blk["v_call"], T.referent, lbl(ET.Call)))
    cfg.add(gtirb.Edge(blk["v_call"], blk["v_next"], lbl(ET.Fallthrough)))
    ctx = RewritingContext(m, [])
    ctx.retarget_symbol_uses(A, B)
    ctx.apply()
    se = bi.symbolic_expressions
    got_call = se[blk["u_call"].offset + 4]
    eng.check(got_call.symbol is B and set(got_call.attributes) == set(),
              "bl operand after the retarget: %r (a branch operand has no attribute rule on ARM64)" % (got_call,))
    for name, o, lo12 in (("adrp", blk["u_ref"].offset, False), ("add :lo12:", blk["u_ref"].offset + 4, True)):
        g = se[o]
        eng.check(g.symbol is B and eng.must(g.offset == addend), "%s operand does not name B with the same addend: %r" % (name, g))
        want = code_ref_attrs(b_int, lo12) if pie else code_ref_attrs(a_int, lo12)
        eng.check(set(g.attributes) == want, "%s operand attributes %s, expected %s" % (name, sorted(map(str, g.attributes)), sorted(map(str, want))))
    gv = se[blk["v_call"].offset + 4]
    eng.check(gv.symbol is T and set(gv.attributes) == set(), "bystander's bl operand changed: %r" % (gv,))
    calls = [e.target for e in blk["u_call"].outgoing_edges if e.label.type == ET.Call]
    eng.check(len(calls) == 1 and calls[0] is B.referent, "call edge of 'nop; bl A' does not lead to B's referent after the retarget")
    vcalls = [e.target for e in blk["v_call"].outgoing_edges if e.label.type == ET.Call]
    eng.check(len(vcalls) == 1 and vcalls[0] is T.referent, "bystander's call edge changed")


def classify(rec):
    return "violation"


def make_check(tier):
    chk = run.Check("C18", tier)
    chk.install_shims = install
    chk.classify_exception = classify
    for fmt, pie in (("elf", True), ("elf", False), ("pe", False)):
        for a_int in (True, False):
            for b_int in (True, False):
                for request in ("one", "chain", "two", "with_insert", "to_data", "from_data"):
                    chk.add("retarget/%s%s/A%s-B%s/%s" % (fmt, "-pie" if pie else "", "int" if a_int else "ext", "int" if b_int else "ext", request),
                            h_retarget, params=dict(fmt=fmt, pie=pie, a_int=a_int, b_int=b_int, request=request))
        for a_int in (True, False):
            chk.add("retarget/%s%s/A%s/alias" % (fmt, "-pie" if pie else "", "int" if a_int else "ext"), h_retarget,
                    params=dict(fmt=fmt, pie=pie, a_int=a_int, b_int=a_int, request="alias"))
        chk.add("retarget/%s%s/invalid" % (fmt, "-pie" if pie else ""), h_retarget,
                params=dict(fmt=fmt, pie=pie, a_int=True, b_int=True, request="invalid"))
        chk.add("retarget/%s%s/into_data" % (fmt, "-pie" if pie else ""), h_retarget,
                params=dict(fmt=fmt, pie=pie, a_int=True, b_int=True, request="into_data"))
    for pie in (True, False):
        for a_int in (True, False):
            for b_int in (True, False):
                chk.add("retarget-arm64/elf%s/A%s-B%s" % ("-pie" if pie else "", "int" if a_int else "ext", "int" if b_int else "ext"),
                        h_retarget_arm64, params=dict(pie=pie, a_int=a_int, b_int=b_int))
    chk.bounds = {
        "ARM64": "ELF PIE / non-PIE: 'nop; bl A' (operand at the first byte of the second instruction), adrp/add :lo12: pair, bystander call",
        "uses of A": "direct call, direct jump, lea (data reference in code), data word, CFI personality and LSDA, symbolForwarding value; "
                     "a bystander symbol with the same kinds of uses",
        "configurations": "x86-64 ELF PIE / ELF non-PIE / PE; A and B internal or external in all four combinations; one retarget, "
                          "chain A->B,B->C, two independent retargets, retarget to an alias of the same block/proxy, retarget combined with an insertion; the four invalid requests",
        "symbolic": "addends of the code reference and of the data word (any integer)",
        "concrete": "instruction bytes and addresses (the real capstone decoder classifies the access)",
    }
    chk.assumptions = ["the attribute tables in expected_attrs() / code_ref_attrs() are independent transcriptions of the x86-64 and ARM64 rules; MIPS is not covered",
                       "the solver's part is small here (addends); use kinds and configurations are enumerated"]
    return chk
