"""C15: evaluate_cfi_directives implements the DWARF call-frame rules and
fails cleanly.

Real code under symbolic inputs: dwarf/cfi_eval.py (evaluate_cfi_directives,
RowState/ProcedureState.__copy__, _resolve_cfi_symbol), parse_cfi_instructions
for escapes, ABI.{default_dwarf_eh_return_column, byteorder, pointer_size}.
Register numbers, offsets, return columns, expression operands, block
addresses and directive displacements are z3 integers.
"""
import copy
import uuid

import gtirb

from oracle import cfi_ref as REF
from symx import core, run, shims
from symx.core import And, Ite, SBytes, SymInt

ISAS = {
    "x64": (gtirb.Module.ISA.X64, gtirb.Module.FileFormat.ELF),
    "arm64": (gtirb.Module.ISA.ARM64, gtirb.Module.FileFormat.ELF),
    "mips32": (gtirb.Module.ISA.MIPS32, gtirb.Module.FileFormat.ELF),
}

# alphabet of supported directives (kind -> operand spec)
ALPHABET = [
    "startproc", "endproc", "personality", "lsda", "return_column", "def_cfa", "def_cfa_register",
    "def_cfa_offset", "adjust_cfa_offset", "undefined", "same_value", "register", "restore", "val_offset",
    "offset", "rel_offset", "remember_state", "restore_state", "esc_def_cfa_expression", "esc_expression",
    "esc_val_expression", "esc_nop", "esc_two",
]
RULE_KINDS = ["undefined", "same_value", "register", "val_offset", "offset", "esc_expression", "esc_val_expression"]


def install():
    shims.install_dwarf()
    import gtirb_rewriting.dwarf.cfi_eval as CE

    def s_bytes(x=b"", *a):
        if isinstance(x, (list, tuple)) and any(isinstance(v, SymInt) for v in x):
            return SBytes(x)
        if isinstance(x, SBytes):
            return x
        return bytes(x, *a)

    CE.bytes = s_bytes


# ---------------------------------------------------------------------------
def gen_expr(eng, tag):
    """One-operation DWARF expression with a symbolic operand: abstract form and bytes."""
    which = eng.choose(tag + "op", ["OpConst1U", "OpPlusUConst", "OpBReg7"])
    if which == "OpConst1U":
        v = eng.int(tag + "c", 0, 255)
        return [("OpConst1U", [v])], [0x08, v]
    if which == "OpPlusUConst":
        v = eng.int(tag + "c", 0, 127)
        return [("OpPlusUConst", [v])], [0x23, v]
    off = eng.int(tag + "c", -64, 63)
    return [("OpBReg", [7, off])], [0x77, Ite(off < 0, off + 128, off)]


def gen_directive(eng, tag, kind):
    """-> abstract directive (name, args, marker)"""
    R = lambda n: eng.int(tag + n, 0, None)  # noqa: E731  register numbers: any non-negative integer
    Z = lambda n: eng.int(tag + n)  # noqa: E731  offsets: any integer
    if kind in ("startproc", "endproc", "remember_state", "restore_state"):
        return (".cfi_" + kind, [], "null")
    if kind in ("personality", "lsda"):
        enc = eng.choose(tag + "enc", [0x00, 0x9B, 0xFF])
        marker = eng.choose(tag + "sym", ["sym:" + kind, "null", "uuid"])
        return (".cfi_" + kind, [enc], marker)
    if kind == "return_column":
        return (".cfi_return_column", [R("col")], "null")
    if kind == "def_cfa":
        return (".cfi_def_cfa", [R("r"), Z("o")], "null")
    if kind == "def_cfa_register":
        return (".cfi_def_cfa_register", [R("r")], "null")
    if kind in ("def_cfa_offset", "adjust_cfa_offset"):
        return (".cfi_" + kind, [Z("o")], "null")
    if kind in ("undefined", "same_value", "restore"):
        return (".cfi_" + kind, [R("r")], "null")
    if kind == "register":
        return (".cfi_register", [R("r"), R("r2")], "null")
    if kind in ("val_offset", "offset", "rel_offset"):
        return (".cfi_" + kind, [R("r"), Z("o")], "null")
    if kind == "esc_nop":
        return (".cfi_escape", [("nop",)], "null")
    if kind == "esc_def_cfa_expression":
        ops, _ = gen_expr(eng, tag)
        return (".cfi_escape", [("def_cfa_expression", ops)], "null")
    if kind in ("esc_expression", "esc_val_expression"):
        ops, _ = gen_expr(eng, tag)
        reg = eng.int(tag + "r", 0, 127)
        return (".cfi_escape", [(kind[4:], reg, ops)], "null")
    if kind == "esc_two":
        ops, _ = gen_expr(eng, tag)
        reg = eng.int(tag + "r", 0, 127)
        return (".cfi_escape", [("nop",), ("val_expression", reg, ops), ("nop",)], "null")
    raise KeyError(kind)


def op_bytes(ops):
    out = []
    for name, vals in ops:
        if name == "OpConst1U":
            out += [0x08, vals[0]]
        elif name == "OpPlusUConst":
            out += [0x23, vals[0]]
        elif name == "OpBReg":
            off = vals[1]
            out += [0x70 + vals[0], Ite(off < 0, off + 128, off)]
        else:
            raise KeyError(name)
    return out


def concrete_directive(d, symbols):
    """Abstract directive -> the tuple stored in the cfiDirectives table."""
    name, args, marker = d
    if marker.startswith("sym:"):
        ref = symbols[marker[4:]]
    elif marker == "uuid":
        ref = uuid.UUID(int=0x1234)
    else:
        ref = uuid.UUID(int=0)
    if name != ".cfi_escape":
        return (name, list(args), ref)
    out = []
    for inst in args:
        if inst[0] == "nop":
            out.append(0x00)
        elif inst[0] == "def_cfa_expression":
            body = op_bytes(inst[1])
            out += [0x0F, len(body)] + body
        elif inst[0] == "expression":
            body = op_bytes(inst[2])
            out += [0x10, inst[1], len(body)] + body
        elif inst[0] == "val_expression":
            body = op_bytes(inst[2])
            out += [0x16, inst[1], len(body)] + body
    return (name, out, ref)


# ---------------------------------------------------------------------------
def prefix_rows(eng, kind):
    """Canonical directive prefixes establishing each state shape."""
    g = lambda tag, k: gen_directive(eng, "p" + tag, k)  # noqa: E731
    if kind == "none":
        return []
    if kind == "start":
        return [[g("0", "startproc")]]
    if kind == "cfa":
        return [[g("0", "startproc"), g("1", "def_cfa")]]
    if kind == "cfa_expr":
        return [[g("0", "startproc")], [g("1", "esc_def_cfa_expression")]]
    if kind == "initial_reg":  # a rule that is part of the initial state, then changed or not
        rows = [[g("0", "startproc"), g("1", "def_cfa"), g("2", "offset")]]
        if eng.choose("pchg", [False, True]):
            k = eng.choose("pk", RULE_KINDS)
            rows.append([g("3", k)])
        return rows
    if kind == "one_reg":
        k = eng.choose("pk", RULE_KINDS)
        return [[g("0", "startproc"), g("1", "def_cfa")], [g("2", k)]]
    if kind == "two_regs":
        k = eng.choose("pk", RULE_KINDS)
        k2 = eng.choose("pk2", ["offset", "register"] if TIER == "thorough" else ["register"])
        return [[g("0", "startproc"), g("1", "def_cfa")], [g("2", k), g("3", k2)]]
    if kind == "stack1":
        k = eng.choose("pk", ["offset", "undefined", "esc_val_expression"])
        return [[g("0", "startproc"), g("1", "def_cfa")], [g("2", k), g("3", "remember_state")],
                [g("4", "def_cfa_offset"), g("5", "offset")]]
    if kind == "stack2":
        return [[g("0", "startproc"), g("1", "def_cfa"), g("2", "offset")],
                [g("3", "remember_state"), g("4", "same_value"), g("5", "remember_state")],
                [g("6", "def_cfa_register")]]
    if kind == "personality":
        rows = [[g("0", "startproc"), ("" ".cfi_personality", [0x9B], "sym:personality"),
                 (".cfi_lsda", [0x1B], "sym:lsda"), g("1", "return_column")]]
        return rows
    if kind == "closed":  # a finished procedure: state must be reset
        return [[g("0", "startproc"), g("1", "def_cfa"), g("2", "offset")],
                [g("4", "return_column"), (".cfi_personality", [0x9B], "sym:personality"), (".cfi_lsda", [0x1B], "sym:lsda"),
                 g("5", "remember_state")],
                [g("3", "endproc")]]
    if kind == "reopened":  # a procedure that starts at the very location where the previous one ends
        return [[g("0", "startproc"), g("1", "def_cfa")],
                [g("2", "endproc"), g("3", "startproc"), g("4", "def_cfa"), g("5", "offset")]]
    raise KeyError(kind)


PREFIXES = ["none", "start", "cfa", "cfa_expr", "initial_reg", "one_reg", "two_regs", "stack1", "stack2",
            "personality", "closed", "reopened"]


# ---------------------------------------------------------------------------
def rule_matches(eng, impl, ref):
    """Implementation register rule object vs reference rule tuple -> condition"""
    name = type(impl).__name__
    want = {"undefined": "RegisterUndefined", "same_value": "RegisterSameValue", "register": "RegisterInRegister",
            "val_offset": "RegValOffset", "offset": "RegisterOffset", "at_expr": "RegisterAtExpression",
            "is_expr": "RegisterIsExpression"}[ref[0]]
    if name != want:
        return False
    if ref[0] in ("undefined", "same_value"):
        return True
    if ref[0] == "register":
        return impl.register == ref[1]
    if ref[0] in ("val_offset", "offset"):
        return impl.offset == ref[1]
    return expr_matches(impl.expression, ref[1])


def expr_matches(impl_ops, ref_ops):
    import dataclasses
    if not isinstance(impl_ops, tuple) or len(impl_ops) != len(ref_ops):
        return False
    conds = []
    for op, (name, vals) in zip(impl_ops, ref_ops):
        if type(op).__name__ != name:
            return False
        fv = [getattr(op, f.name) for f in dataclasses.fields(op)]
        if len(fv) != len(vals):
            return False
        conds += [a == b for a, b in zip(fv, vals)]
    return And(*conds) if conds else True


def check_row(eng, impl_row, ref_row, what):
    eng.check(type(impl_row).__name__ == "RowState", what + ": not a RowState")
    if ref_row.cfa is None:
        eng.check(impl_row.cfa is None, what + ": CFA rule should be unset")
    elif ref_row.cfa[0] == "regoff":
        eng.check(type(impl_row.cfa).__name__ == "CFARegisterOffset", what + ": CFA rule kind")
        eng.check(And(impl_row.cfa.register == ref_row.cfa[1], impl_row.cfa.offset == ref_row.cfa[2]),
                  what + ": CFA register/offset")
    else:
        eng.check(type(impl_row.cfa).__name__ == "CFAExpression", what + ": CFA rule kind")
        eng.check(expr_matches(impl_row.cfa.expression, ref_row.cfa[1]), what + ": CFA expression")
    items = list(impl_row.registers.items())
    eng.check(len(items) == len(ref_row.regs), what + ": %d register rules, expected %d" % (len(items), len(ref_row.regs)))
    for k, rule in items:
        hits = [r for (rk, r) in ref_row.regs if eng.must(rk == k)]
        eng.check(len(hits) == 1, what + ": register rule for a register the reference has no (unique) rule for")
        eng.check(rule_matches(eng, rule, hits[0]), what + ": register rule differs")


def check_state(eng, impl, ref, symbols, what):
    if ref is None:
        eng.check(impl is None, what + ": state should be None outside a procedure")
        return
    eng.check(impl is not None, what + ": state is None inside a procedure")
    eng.check(impl.return_column == ref.return_column, what + ": return column")
    for fld in ("personality", "lsda"):
        iv, rv = getattr(impl, fld), getattr(ref, fld)
        if rv is None:
            eng.check(iv is None, what + ": %s should be unset" % fld)
        else:
            eng.check(iv is not None and int(iv.encoding) == rv[0] and iv.symbol is symbols[rv[1]],
                      what + ": %s pointer" % fld)
    check_row(eng, impl.current, ref.current, what + " current")
    check_row(eng, impl.initial, ref.initial, what + " initial")
    eng.check(len(impl.save_stack) == len(ref.stack), what + ": save stack depth")
    for i, (a, b) in enumerate(zip(impl.save_stack, ref.stack)):
        check_row(eng, a, b, what + " stack[%d]" % i)


# ---------------------------------------------------------------------------
def h_eval(eng, isa, prefix, extra, layout):
    from gtirb_rewriting import _auxdata_offsetmap
    from gtirb_rewriting.abi import ABI
    from gtirb_rewriting.dwarf.cfi_eval import evaluate_cfi_directives

    rows = prefix_rows(eng, prefix)
    for i in range(extra):
        kind = eng.choose("k%d" % i, ALPHABET)
        d = gen_directive(eng, "x%d" % i, kind)
        if rows and eng.choose("same%d" % i, [False, True]):
            rows[-1].append(d)
        else:
            rows.append([d])
    if not rows:
        rows = [[]]
    # ---- real module -------------------------------------------------------
    g_isa, g_fmt = ISAS[isa]
    ir = gtirb.IR()
    m = gtirb.Module(name="m", isa=g_isa, file_format=g_fmt, ir=ir)
    sect = gtirb.Section(name=".text", module=m, flags={gtirb.Section.Flag.Executable, gtirb.Section.Flag.Readable})
    symbols = {"personality": gtirb.Symbol("personality", module=m), "lsda": gtirb.Symbol("lsda", module=m)}
    n_blocks = 1 if layout == "one" or len(rows) < 2 else 2
    split = len(rows) if n_blocks == 1 else eng.choose("split", list(range(1, len(rows))))
    a1 = eng.int("A1", 0, None)
    blocks = []
    bi1 = gtirb.ByteInterval(contents=b"\x90" * 4, address=a1, section=sect)
    b1 = gtirb.CodeBlock(offset=0, size=4, byte_interval=bi1)
    blocks.append(b1)
    if n_blocks == 2:
        gap = eng.int("gap", 0, None)
        if layout == "two_rev":
            a2 = a1  # second block precedes: shift the first one up
            bi1.address = a1 + 4 + gap
        else:
            a2 = a1 + 4 + gap
        bi2 = gtirb.ByteInterval(contents=b"\x90" * 4, address=a2, section=sect)
        b2 = gtirb.CodeBlock(offset=0, size=4, byte_interval=bi2)
        blocks.append(b2)
    order = blocks if (layout != "two_rev" or n_blocks == 1) else [blocks[1], blocks[0]]  # address order
    table = _auxdata_offsetmap.cfi_directives.get_or_insert(m)
    expected_locs = []
    for bidx, chunk in enumerate([rows[:split], rows[split:]][:n_blocks]):
        blk = order[bidx]
        off = eng.int("o%d" % bidx, 0, None)
        entries = []
        for j, row in enumerate(chunk):
            if j:
                off = off + eng.int("d%d_%d" % (bidx, j), 1, None)
            entries.append((off, [concrete_directive(d, symbols) for d in row]))
            expected_locs.append((blk, off))
        # the displacement map of a block is a dictionary: its insertion order is not address order in general (a pass
        # that adds a directive in front of existing ones appends the smaller key last)
        if layout != "one" and bidx == 0:
            entries.reverse()
        dmap = {}
        for off_, row_ in entries:
            dmap[off_] = row_
        if dmap:
            table[blk] = dmap
    abi = ABI.get(m)
    default_col = abi.default_dwarf_eh_return_column()
    eng.check(default_col == {"x64": 16, "arm64": 32, "mips32": 32}[isa], "default return column for the ABI changed")
    # ---- run both ------------------------------------------------------------
    ref_out = list(REF.evaluate([r for r in rows if r or True], default_col))
    gen = evaluate_cfi_directives(m, list(reversed(blocks)))
    copies = []
    for i, (kind, val) in enumerate(ref_out):
        try:
            blk, off, st = next(gen)
        except StopIteration:
            eng.fail("evaluation stopped after %d of %d directive locations" % (i, len(ref_out)))
        except Exception as ex:
            tname = type(ex).__name__
            if kind == "error":
                want = "CFIStateError" if val == "state" else "ValueError"
                eng.check(tname == want, "ill-formed sequence reported as %s, expected %s" % (tname, want))
                return
            eng.fail("well-formed sequence raised %s: %s" % (tname, ex), finding=_finding(tname, rows))
        if kind == "error":
            eng.fail("ill-formed sequence (%s error expected) was evaluated without an error" % val)
        eng.check(blk is expected_locs[i][0], "yield %d: wrong block (address order)" % i)
        eng.check(off == expected_locs[i][1], "yield %d: wrong displacement" % i)
        check_state(eng, st, val, symbols, "location %d" % i)
        if st is not None:
            copies.append((copy.copy(st), val, i))
    if not ref_out or ref_out[-1][0] != "error":
        try:
            next(gen)
            eng.fail("more locations yielded than directive locations exist")
        except StopIteration:
            eng.ok()
    for c, val, i in copies:
        check_state(eng, c, val, symbols, "copy taken at location %d, after later evaluation" % i)


def _finding(tname, rows):
    # .cfi_restore of a register with no rule anywhere -> KeyError
    if tname == "KeyError" and any(d[0] == ".cfi_restore" for r in rows for d in r):
        return "C15-restore-without-rule"
    return None


def classify(rec):
    return "violation"


TIER = "quick"


BAD_ESCAPES = {
    "def_cfa_expression-no-length": [0x0F],
    "def_cfa_expression-length-continues": [0x0F, 0x80],
    "expression-no-register": [0x10],
    "expression-no-length": [0x10, 0x03],
    "const1u-without-operand": [0x0F, 0x02, 0x08],
    "const2u-half-operand": [0x0F, 0x03, 0x0A, 0x34],
    "operation-longer-than-expression": [0x0F, 0x01, 0x08, 0x2A],
    "def_cfa-without-offset": [0x0C, 0x07],
    "advance_loc4-truncated": [0x04, 0x01, 0x02],
}


def h_bad_escape(eng, isa, which):
    """An escaped instruction whose bytes end early or contradict their own length: an ill-formed sequence, reported as
    ValueError/CFIStateError - no other exception type, and no state built from bytes that are not there."""
    from gtirb_rewriting import _auxdata_offsetmap
    from gtirb_rewriting.dwarf.cfi_eval import CFIStateError, evaluate_cfi_directives
    g_isa, g_fmt = ISAS[isa]
    ir = gtirb.IR()
    m = gtirb.Module(name="m", isa=g_isa, file_format=g_fmt, ir=ir)
    sect = gtirb.Section(name=".text", module=m, flags={gtirb.Section.Flag.Executable, gtirb.Section.Flag.Readable})
    bi = gtirb.ByteInterval(contents=b"\x90" * 8, address=eng.int("A1", 0, None), section=sect)
    b = gtirb.CodeBlock(offset=0, size=8, byte_interval=bi)
    null = uuid.UUID(int=0)
    table = _auxdata_offsetmap.cfi_directives.get_or_insert(m)
    table[b] = {0: [(".cfi_startproc", [], null), (".cfi_def_cfa", [7, 8], null)],
                4: [(".cfi_escape", list(BAD_ESCAPES[which]), null)],
                8: [(".cfi_endproc", [], null)]}
    try:
        out = list(evaluate_cfi_directives(m, [b]))
    except (ValueError, CFIStateError):
        eng.ok()
        return
    eng.fail("ill-formed .cfi_escape %s (%s) was accepted: %r" % (which, BAD_ESCAPES[which], out[-2:]))


def make_check(tier):
    global TIER
    TIER = tier
    chk = run.Check("C15", tier)
    chk.install_shims = install
    chk.classify_exception = classify
    extra = 2 if tier == "quick" else 3
    quick = tier == "quick"

    for which in BAD_ESCAPES:
        chk.add("bad-escape/x64/%s" % which, h_bad_escape, params=dict(isa="x64", which=which), timeout=300)

    def add(isa, prefix, layout, n, timeout=2400):
        chk.add("eval/%s/%s/%s/+%d" % (isa, prefix, layout, n), h_eval,
                params=dict(isa=isa, prefix=prefix, extra=n, layout=layout), timeout=timeout)

    for prefix in PREFIXES:
        add("x64", prefix, "one", 1)  # one step from every state shape
        if not quick or prefix in ("cfa", "stack1", "closed"):
            add("x64", prefix, "two", 1)
            add("x64", prefix, "two_rev", 1)
        if not quick or prefix in ("none", "start", "cfa"):
            add("x64", prefix, "one", 2, 7200)
        # the deepest explorations are partitioned into one scenario per first directive (core.with_preset), so that
        # each is about as large as a "+1"/"+2" scenario and they run in parallel
        if not quick and prefix in ("none", "start", "cfa", "closed"):
            for k, kind in enumerate(ALPHABET):
                chk.add("eval/x64/%s/two/+2/first=%s" % (prefix, kind), core.with_preset(h_eval, {"k0": k}),
                        params=dict(isa="x64", prefix=prefix, extra=2, layout="two"), timeout=7200)
        if not quick and prefix in ("none", "start"):
            for k, kind in enumerate(ALPHABET):
                chk.add("eval/x64/%s/one/+3/first=%s" % (prefix, kind), core.with_preset(h_eval, {"k0": k}),
                        params=dict(isa="x64", prefix=prefix, extra=3, layout="one"), timeout=7200)
        for isa in ("arm64", "mips32"):
            if not quick or prefix in ("start", "personality", "cfa_expr"):
                add(isa, prefix, "two", 1)
    chk.bounds = {
        "state shapes (canonical prefixes)": PREFIXES,
        "free directives after the prefix": "%d from the full supported alphabet (%d kinds, well- and ill-formed), each "
                                            "in the previous location or a new one" % (extra, len(ALPHABET)),
        "registers per row": "<= 3 distinct, save stack depth <= 3",
        "symbolic": "register numbers >= 0, offsets any integer, return column, block addresses/gap, directive displacements "
                    "(unbounded); escape operands one LEB128 byte; pointer encodings enumerated {0x00, 0x9b, 0xff}",
        "blocks": "1 or 2 (passed in reverse address order); in the two-block layouts the first block's displacement map is filled in "
                  "descending key order",
        "ABIs": list(ISAS),
    }
    chk.assumptions = [
        "reference interpreter oracle/cfi_ref.py (DWARF v4 6.4.2 + GNU as directive meaning); .cfi_rel_offset is not a DWARF "
        "instruction and is modelled as the library documents/tests it (relative to the register's CFA+offset rule)",
        "the ABI's default return column, byte order and pointer size are inputs read from the real ABI object",
        "unsupported directives/escaped instructions (NotImplementedError) are outside the supported set and not generated",
        "dwarf shims as in C14 plus `bytes` in dwarf/cfi_eval.py; validated by concrete replay",
    ]
    return chk
