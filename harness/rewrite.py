"""C01-C06 (and building blocks for C08/C09/C11): assertion sets over the
symbolic rewrite harness.  Each property has its own make_check_* and re-runs
the exploration; the assertion sets are selected by `props`."""
import uuid

import gtirb

from harness import srh
from oracle import listing as L
from symx import core, run, shims
from symx.core import And, Rope, rope_equal_check


def install():
    out = {}
    out.update(shims.install_gtirb_bytes())
    out.update(shims.install_determinism())
    return out


# ---------------------------------------------------------------------------
def final_model(sc):
    """Listing model after the scenario's modifications (registration order)."""
    eng = sc.eng
    ls = L.Listing.from_scenario(sc)
    by_patch = {}
    for patch, res in sc.patch_log:
        by_patch.setdefault(id(patch), []).append(res)
    for mi, md in enumerate(sc.spec.get("mods", [])):
        bid = md.get("blk")
        if md["op"] == "insert_function":
            results = by_patch.get(id(sc.mod_patches[mi]), [])
            eng.check(len(results) == 1, "patch of the inserted function was assembled %d times" % len(results))
            items = L.patch_items(md["patch"], md.get("uid", mi), results[0].text_section.data, None, None, sc.spec.get("isa", "x64"))
            ls.append_function(".text", md["name"], items)
            continue
        func = ls.block_func.get(bid) if ls.block_code[bid] else None
        if md["op"] in ("insert", "replace"):
            if md["patch"] == "rawbytes":
                src, n = sc.data_patch[mi]
                items = [L.Item("atom", id="raw%d" % mi, kind="d", target=None, length=n, rope=Rope.src(src, n), blk=bid,
                                code=False, orig=False, patch=mi, func=None, expr=None, annots=[])]
            elif md["patch"] == "decline":
                # a patch that returns no assembly: nothing is inserted and nothing is replaced
                eng.check(not by_patch.get(id(sc.mod_patches[mi])), "a declining patch produced an assembler result")
                continue
            else:
                results = by_patch.get(id(sc.mod_patches[mi]), [])
                eng.check(len(results) == 1, "patch of modification %d was assembled %d times, expected once" % (mi, len(results)))
                data = results[0].text_section.data
                items = L.patch_items(md["patch"], md.get("uid", mi), data, bid, func, sc.spec.get("isa", "x64"))
            ls.insert(bid, md["at"], items)
            if md["op"] == "replace":
                ls.delete(bid, md["at"], md["to"])
        else:
            ls.delete(bid, md["at"], md["to"], proxy=bool(md.get("proxy")))
    return ls


def check_bytes(sc, ls):
    eng = sc.eng
    for sect in sc.sections:
        got, bases = sc.flatten_bytes(sect)
        exp = ls.rope(sect.name)
        if sc.sym:
            rope_equal_check(eng, got, exp, "C01 bytes of %s" % sect.name)
        else:
            want = exp.materialize(sc.sources)
            eng.check(got == want, "C01 bytes of %s: got %s expected %s" % (sect.name, got.hex(), want.hex()))
        size = 0
        for bi in sect.byte_intervals:
            size = size + bi.size
        eng.check(size == exp.length + sc.uninit.get(sect.name, 0),
                  "C01 total size of %s (the zero-fill tail behind the stored bytes is part of the section)" % sect.name)


def _bases(sc):
    bases = {}
    for sect in sc.sections:
        _, b = sc.flatten_bytes(sect)
        bases.update(b)
    return bases


def _find_symbols(sc, name, temp):
    if not temp:
        return [s for s in sc.module.symbols if s.name == name]
    return [s for s in sc.module.symbols if s.name.startswith(name + "_")]


def check_symbols(sc, ls):
    eng = sc.eng
    m = sc.module
    bases = _bases(sc)
    n_expected = 0
    used_temps = set()
    for sect in sc.sections:
        items, _ = ls.positions(sect.name)
        for it, pos in items:
            if it.t != "label":
                continue
            n_expected += 1
            syms = _find_symbols(sc, it.sym, it.temp)
            if it.temp:
                # temporary labels of several patches may share a name up to the per-patch suffix: as many symbols as
                # definitions, and each definition takes one that designates its position
                want_n = sum(1 for sec2 in sc.sections for it2, _ in ls.positions(sec2.name)[0]
                             if it2.t == "label" and it2.temp and it2.sym == it.sym)
                eng.check(len(syms) == want_n, "C02 symbol %s exists %d times, %d definitions" % (it.sym, len(syms), want_n))
                if want_n > 1:
                    free = [x for x in syms if id(x) not in used_temps]
                    hit = None
                    for x in free:
                        r = x.referent
                        if isinstance(r, gtirb.ByteBlock) and r.byte_interval in bases and \
                                eng.must(bases[r.byte_interval] + r.offset + (r.size if x.at_end else 0) == pos):
                            hit = x
                            break
                    syms = [hit if hit is not None else free[0]]
                    used_temps.add(id(syms[0]))
            else:
                eng.check(len(syms) == 1, "C02 symbol %s exists %d times" % (it.sym, len(syms)))
            s = syms[0]
            ref = s.referent
            eng.check(s.module is m, "C02 symbol %s is not in the module" % it.sym)
            if getattr(it, "proxy", False):
                eng.check(isinstance(ref, gtirb.ProxyBlock) and ref in m.proxies,
                          "C02 symbol %s of a block deleted with retarget_to_proxy does not refer to a proxy" % it.sym)
                continue
            eng.check(isinstance(ref, gtirb.ByteBlock), "C02 symbol %s has no block referent: %r" % (it.sym, ref),
                      finding=_endlabel_proxy_finding(sc) if isinstance(ref, gtirb.ProxyBlock) else None)
            eng.check(ref.byte_interval is not None and ref.module is m and ref.byte_interval in bases,
                      "C02 symbol %s refers to a block that left the module" % it.sym)
            eng.check(ref.section is sect, "C02 symbol %s ended up in another section" % it.sym)
            got = bases[ref.byte_interval] + ref.offset + (ref.size if s.at_end else 0)
            eng.check(got == pos, "C02 symbol %s designates another position of the listing" % it.sym, symbol=it.sym)
    # nothing stranded, nothing duplicated
    for s in m.symbols:
        ref = s.referent
        eng.check(ref is not None, "C02 symbol %s lost its referent" % s.name)
        if isinstance(ref, gtirb.ByteBlock):
            eng.check(ref.byte_interval is not None and ref.module is m,
                      "C02 symbol %s refers to a block that is no longer part of the module" % s.name)
        elif isinstance(ref, gtirb.ProxyBlock):
            eng.check(ref in m.proxies, "C02 symbol %s refers to a proxy outside the module" % s.name)
    n_ext = len(sc.spec.get("ext", []))
    extra = len(m.symbols) - n_expected - n_ext
    eng.check(extra == 0, "C02/C04 %d unexpected extra symbols in the module" % extra)


def _match_one(eng, got_list, pos, what, pred=None):
    """Exactly one entry of got_list [(pos, value)] sits (provably) at pos."""
    hits = [v for (p, v) in got_list if eng.must(p == pos)]
    if pred is not None:
        hits = [v for v in hits if pred(v)]
    eng.check(len(hits) == 1, "%s: %d entries at the expected position" % (what, len(hits)))
    return hits[0]


def check_annotations(sc, ls):
    from gtirb_rewriting import _auxdata_offsetmap
    eng = sc.eng
    m = sc.module
    bases = _bases(sc)
    tdefs = (_auxdata_offsetmap.comments, _auxdata_offsetmap.padding, _auxdata_offsetmap.symbolic_expression_sizes)
    # implementation side, per section ---------------------------------------------
    got_exprs = {sect: [] for sect in sc.sections}
    got_tables = {t.name: {sect: [] for sect in sc.sections} for t in tdefs}
    for bi in m.byte_intervals:
        for k, expr in bi.symbolic_expressions.items():
            eng.check(And(k >= 0, k < bi.size), "C04 symbolic expression key outside its byte interval")
            got_exprs[bi.section].append((bases[bi] + k, expr))
    for tdef in tdefs:
        tbl = tdef.get(m)
        if tbl is None:
            continue
        for elem in list(tbl.node_keys()):
            for disp, value in tbl[elem].items():
                if isinstance(elem, gtirb.ByteInterval):
                    eng.check(elem in bases, "C04 %s entry keyed by an interval outside the module" % tdef.name)
                    eng.check(And(disp >= 0, disp <= elem.size), "C04 %s displacement outside its interval" % tdef.name)
                    got_tables[tdef.name][elem.section].append((bases[elem] + disp, value))
                else:
                    eng.check(isinstance(elem, gtirb.ByteBlock) and elem.byte_interval is not None
                              and elem.byte_interval in bases, "C04 %s entry keyed by a block outside the module" % tdef.name)
                    eng.check(And(disp >= 0, disp <= elem.size), "C04 %s displacement outside its block" % tdef.name)
                    got_tables[tdef.name][elem.section].append((bases[elem.byte_interval] + elem.offset + disp, value))
    # model side ------------------------------------------------------------------
    for sect in sc.sections:
        n_exprs = 0
        n_rows = {k: 0 for k in got_tables}
        items, _ = ls.positions(sect.name)
        for it, pos in items:
            if it.t != "atom":
                continue
            for (delta, table, value, keyed) in it.annots:
                if table == "symexpr":
                    n_exprs += 1
                    _match_one(eng, got_exprs[sect], pos + delta, "C04 symbolic expression of atom %s" % it.id,
                               pred=lambda v, want=value: v is want)
                else:
                    n_rows[table] += 1
                    _match_one(eng, got_tables[table][sect], pos + delta, "C04 %s entry of atom %s" % (table, it.id),
                               pred=lambda v, want=value: v == want)
            if it.expr is not None:
                off, symname, addend, width = it.expr
                n_exprs += 1
                e = _match_one(eng, got_exprs[sect], pos + off, "C04 expression created by patch atom %s" % it.id)
                if symname.startswith(".L"):
                    ok = isinstance(e, gtirb.SymAddrConst) and e.symbol.name.startswith(symname) and e.symbol in m.symbols
                else:
                    ok = isinstance(e, gtirb.SymAddrConst) and e.symbol is sc.symbols.get(symname)
                eng.check(ok, "C04 patch expression does not refer (by identity) to the module's symbol %s" % symname)
                eng.check(e.offset == addend, "C04 patch expression addend")
                n_rows["symbolicExpressionSizes"] += 1
                _match_one(eng, got_tables["symbolicExpressionSizes"][sect], pos + off,
                           "C04 size entry of patch expression %s" % it.id, pred=lambda v, w=width: v == w)
        eng.check(len(got_exprs[sect]) == n_exprs, "C04 %s: %d symbolic expressions, %d expected" % (
            sect.name, len(got_exprs[sect]), n_exprs))
        for name in got_tables:
            eng.check(len(got_tables[name][sect]) == n_rows[name], "C04 %s: %s has %d entries, %d expected" % (
                sect.name, name, len(got_tables[name][sect]), n_rows[name]))


def block_ranges(sc, bases, code_only=True):
    out = []
    for blk in sc.module.byte_blocks:
        if code_only and not isinstance(blk, gtirb.CodeBlock):
            continue
        start = bases[blk.byte_interval] + blk.offset
        out.append((blk, start, start + blk.size))
    return out


def check_functions(sc, ls):
    from gtirb_rewriting import _auxdata
    eng = sc.eng
    m = sc.module
    bases = _bases(sc)
    fb = _auxdata.function_blocks.get(m) or {}
    fe = _auxdata.function_entries.get(m) or {}
    fn = _auxdata.function_names.get(m) or {}
    by_block = {}
    for u, blocks in fb.items():
        eng.check(len(blocks) > 0, "C06 function with no blocks is still in functionBlocks")
        for b in blocks:
            eng.check(b not in by_block, "C06 block is in two functions")
            eng.check(isinstance(b, gtirb.CodeBlock) and b.byte_interval is not None and b.module is m,
                      "C06 functionBlocks mentions a non-code block or a block outside the module")
            by_block[b] = u
    eng.check(set(fe) == set(fb) and set(fn) == set(fb), "C06 the three function tables list different functions")
    for u, entries in fe.items():
        eng.check(entries <= fb.get(u, set()), "C06 functionEntries is not a subset of functionBlocks")
    name_of = {u: s.name for u, s in fn.items()}
    uuid_name = {}
    for fname, u in sc.func_uuids.items():
        uuid_name[u] = fname
    inserted = [md["name"] for md in sc.spec.get("mods", []) if md and md["op"] == "insert_function"]
    for name in inserted:
        sym = sc.symbols[name]
        us = [u for u, s in fn.items() if s is sym]
        eng.check(len(us) == 1, "C06 inserted function %s has %d functionNames entries naming its symbol" % (name, len(us)))
        u = us[0]
        uuid_name[u] = "new:" + name
        eng.check(u in fb and u in fe, "C06 inserted function %s is missing from functionBlocks/functionEntries" % name)
        eng.check(isinstance(sym.referent, gtirb.CodeBlock) and fe[u] == {sym.referent},
                  "C06 inserted function %s: its entries are %d blocks, expected exactly the block its symbol names" % (name, len(fe[u])))
    for sect in sc.sections:
        items, _ = ls.positions(sect.name)
        ranges = [(b, s, e) for (b, s, e) in block_ranges(sc, bases, code_only=False) if b.section is sect]
        for it, pos in items:
            if it.t != "atom":
                continue
            cover = [b for (b, s, e) in ranges if eng.must(And(s <= pos, pos + it.length <= e))]
            eng.check(len(cover) == 1, "C06/C05 atom %s is covered by %d blocks" % (it.id, len(cover)))
            blk = cover[0]
            want = it.func if it.code else None
            if not it.code:
                eng.check(blk not in by_block, "C06 data ended up in a function")
                continue
            eng.check(isinstance(blk, gtirb.CodeBlock), "C06 code atom %s is in a data block" % it.id)
            got = uuid_name.get(by_block.get(blk))
            eng.check(got == want, "C06 atom %s belongs to function %s, expected %s" % (it.id, got, want), atom=str(it.id))
    # a function without surviving code is gone from all tables, unless a documented zero-sized block of it remains
    alive = set()
    for items in ls.sections.values():
        for it in items:
            if it.t == "atom" and it.code and it.func:
                alive.add(it.func)
    for fname, u in sc.func_uuids.items():
        if fname in alive:
            eng.check(u in fb, "C06 function %s still has code but left the tables" % fname)
        elif u in fb:
            eng.check(all(eng.must(b.size == 0) for b in fb[u]),
                      "C06 function %s lost all its code but is still in the tables with non-empty blocks" % fname)
    # entries: an original entry block that survives stays an entry; promotion only inside the same function
    for fname, u in sc.func_uuids.items():
        if u not in fe or fname not in alive:
            continue
        must, may = expected_entry_positions(sc, ls, fname)
        got_pos = [bases[b.byte_interval] + b.offset for b in fe[u]]
        for wp in must:
            eng.check(any(eng.must(gp == wp) for gp in got_pos), "C06 function %s: surviving entry block is no longer an entry" % fname)
        for gp in got_pos:
            eng.check(any(eng.must(gp == wp) for wp in must + may),
                      "C06 function %s has an entry block that is neither an original entry nor a legal promotion" % fname)


def _promotion_chain(sc, order, bid, target, fname):
    """Blocks strictly between bid and target: all code of fname, no gap in front, wholly deleted without a proxy (the
    modifications of one apply() run in address order, so each became the entry and handed it on); target itself is code of
    fname without a gap in front."""
    i, j = order.index(bid), order.index(target)
    if j <= i:
        return False
    mods = sc.spec.get("mods", [])
    for mid in order[i + 1:j]:
        bs = sc.bspec[mid]
        if bs["kind"] != "code" or bs.get("func") != fname or bs.get("gap"):
            return False
        whole = any(md and md["op"] == "delete" and md["blk"] == mid and md["at"] == 0 and md["to"] == len(bs["atoms"])
                    and not md.get("proxy") for md in mods)
        if not whole or any(md and md["blk"] == mid and md["op"] != "delete" for md in mods):
            return False
    tb = sc.bspec[target]
    return tb["kind"] == "code" and tb.get("func") == fname and not tb.get("gap")


def expected_entry_positions(sc, ls, fname):
    """-> (must, may): listing positions where function fname must / may have
    entry blocks (rule R8).  must: an original entry block that still has
    content stays an entry.  may: additionally the position of the next
    surviving code of the same function after a wholly deleted entry block
    (the library promotes only when the block that physically followed at the
    time of deletion was code of the same function)."""
    must, may = [], []
    bids = [b for b, s in sc.bspec.items() if s.get("func") == fname]
    for bid in bids:
        bs = sc.bspec[bid]
        is_entry = bs.get("entry") or (bid == bids[0] and not any(sc.bspec[b].get("entry") for b in bids))
        if not is_entry:
            continue
        items, _ = ls.positions(ls.block_section[bid])
        start = min(i for i, (it, _) in enumerate(items) if getattr(it, "blk", None) == bid)
        order = [b["id"] for s in sc.spec["sections"] if s["name"] == ls.block_section[bid] for b in s["blocks"]]
        nxt_bid = order[order.index(bid) + 1] if order.index(bid) + 1 < len(order) else None
        for it, pos in items[start:]:
            if it.t == "atom" and it.blk == bid:
                must.append(pos)  # the block survives (own atom or patch inserted into it)
                break
            if it.t == "atom":
                if it.code and it.func == fname:
                    # the entry block is gone; when the block that physically followed it is code of the same function
                    # and still there, it must have been promoted
                    proxy_deleted = any(md and md["op"] == "delete" and md.get("proxy") and md["blk"] == bid
                                        for md in sc.spec.get("mods", []))
                    if proxy_deleted:
                        pass  # retarget_to_proxy: the function entry becomes external, nothing is promoted
                    elif it.blk == nxt_bid and sc.bspec[nxt_bid]["kind"] == "code" and not sc.bspec[nxt_bid].get("gap"):
                        must.append(pos)
                    elif it.blk in order and _promotion_chain(sc, order, bid, it.blk, fname):
                        must.append(pos)  # every block in between was promoted in turn and then deleted as well
                    else:
                        may.append(pos)
                break
            if it.t == "gap":
                break
    return must, may


# ---------------------------------------------------------------------------
PROP_CHECKS = {"C01": [check_bytes], "C02": [check_bytes, check_symbols], "C04": [check_bytes, check_annotations],
               "C06": [check_bytes, check_functions]}


def h_rewrite(eng, spec, props):
    sc = srh.Scenario(eng, spec)
    sc.register()
    try:
        sc.apply()
    except AssertionError as ex:
        if "modifications overlap" in str(ex):
            raise core.Abort()  # the library's own definition of overlapping requests
        kf = known_crash(spec, ex)
        if kf and kf.startswith("C08"):
            if "C08" in props:
                eng.fail("apply() raised AssertionError in _cleanup_modified_blocks: the zero-sized block that keeps the "
                         ".cfi_endproc can neither join the data block of the patch nor be removed", finding=kf)
            raise core.Abort()
        if kf:
            if "C01" in props:
                eng.fail("apply() raised AssertionError in _apply_modifications: an insertion at the end offset of a "
                         "block that the same context deletes entirely has no block to land in", finding=kf)
            raise core.Abort()  # recorded as a C01 finding; the other assertion sets cannot be evaluated on a crash
        raise
    ls = final_model(sc)
    for p in props:
        for fn in PROP_CHECKS[p]:
            fn(sc, ls)


def cfi_tail_data_pattern(spec):
    """A data-only patch inserted behind the last instruction of a section's last block whose end carries .cfi_endproc."""
    for ss in spec["sections"]:
        last = ss["blocks"][-1]
        ends = any(c["blk"] == last["id"] and c["at"] == len(last["atoms"]) and any(d[0] == ".cfi_endproc" for d in c["dirs"])
                   for c in spec.get("cfi", []))
        if ends and any(m["op"] == "insert" and m["blk"] == last["id"] and m["at"] == len(last["atoms"])
                        and m["patch"] in ("byte", "quad", "trail_label_data", "string", "rawbytes") for m in spec.get("mods", [])):
            return True
    return False


def crash_pattern(spec):
    if cfi_tail_data_pattern(spec):
        return True
    natoms = {b["id"]: len(b["atoms"]) for s in spec["sections"] for b in s["blocks"]}
    mods = spec.get("mods", [])
    for d in mods:
        if d["op"] == "delete" and d["at"] == 0 and d["to"] == natoms[d["blk"]]:
            for i in mods:
                if i["op"] in ("insert", "replace") and i.get("blk") == d["blk"] and i["at"] == natoms[d["blk"]]:
                    return True
    return False


def has_function_insertion(spec):
    return any(md and md["op"] == "insert_function" for md in spec.get("mods", []))


def known_crash(spec, ex):
    """C01-insert-at-end-of-deleted-block: delete_at(b, 0, size) together with an
    insertion/replacement registered for offset == size of the same block."""
    import traceback
    tb = "".join(traceback.format_exception(type(ex), ex, ex.__traceback__))
    if "assert all(b.size for b in blocks)" in tb and cfi_tail_data_pattern(spec):
        return "C08-data-patch-behind-the-last-procedure"
    if "assert isinstance(actual_block, gtirb.ByteBlock)" not in tb:
        return None
    return "C01-insert-at-end-of-deleted-block" if crash_pattern(spec) else None


def classify(rec):
    return "violation"


BOUNDS = {
    "layouts": "x86-64 ELF; .text of 3 blocks (code/code/code with every terminator kind on the middle block, or "
               "code/data/code) and an optional .data section of 2 blocks with a gap and an unowned tail; one byte "
               "interval per section (split per block by prepare_for_rewriting and re-joined); 2 functions",
    "modifications": "1-3 per scenario: insert_at / replace_at / delete_at (with and without retarget_to_proxy) at every "
                     "atom boundary of the edited block, patch bodies from a fixed vocabulary assembled by the real mcasm, "
                     "raw bytes of symbolic length for data",
    "symbolic": "every atom length (code: ISA lengths 1..15 / terminator encodings; data: >= 1 unbounded), gap and tail "
                "sizes, section base address and distance, annotation displacements, addends, raw patch lengths",
    "not covered": "alignment padding (C10), more than 3 blocks per section, ARM64/PE layouts, overlapping blocks",
}
ASSUME = [
    "request sets the library itself rejects ('modifications overlap') are assumed away and counted",
    "input CFG generated from the listing by the listing model's control-flow rule (consistent with the code)",
    "patch bytes are whatever the real assembler produced (C12 is about the assembler); instruction lengths inside patches "
    "are taken from capstone",
    "expensive_assertions=False in the symbolic run (capstone cannot decode a rope); default True in the concrete replays",
    "len/bytearray shims in edit.py, intervalutils.py, rewriting.py, gtirb/byteinterval.py; counter-based UUIDs and "
    "uuid-based Node hashing so that in-process re-execution is deterministic; validated by concrete replay",
]


ARM64_PIDS = ("C01", "C02", "C03", "C05", "C06")  # C04: operand sizes of ARM64 patch expressions are not modelled


def make_rewrite_check(pid, tier, props):
    from harness import rewrite_shapes
    chk = run.Check(pid, tier)
    chk.install_shims = install
    chk.classify_exception = classify
    for sid, spec in rewrite_shapes.shapes(tier):
        if "C01" not in props and crash_pattern(spec):
            continue  # C01 known finding (apply() crashes); nothing to evaluate for the other properties
        chk.add(sid, h_rewrite, params=dict(spec=spec, props=props), timeout=900)
    if pid in ARM64_PIDS:
        for sid, spec in rewrite_shapes.arm64_shapes(tier):
            if "C01" not in props and crash_pattern(spec):
                continue
            chk.add(sid, h_rewrite, params=dict(spec=spec, props=props), timeout=900)
    chk.bounds = dict(BOUNDS)
    if pid in ARM64_PIDS:
        chk.bounds["ARM64"] = ("the same layouts and requests on an ARM64 ELF module for the patches that have an ARM64 rendering "
                               "(instruction lengths are the constant 4; gaps, data sizes, addresses, displacements symbolic)")
    chk.assumptions = list(ASSUME)
    return chk


def make_check_C01(tier):
    return make_rewrite_check("C01", tier, ["C01"])


def _endlabel_proxy_finding(sc):
    """An insertion at the very end of block X together with a whole-block retarget_to_proxy deletion of the block that
    follows X: the labels at the end of X (its end-of-block labels, a trailing label of the patch) slide onto the next
    block first and then share its fate."""
    mods = sc.spec.get("mods", [])
    for ss in sc.spec["sections"]:
        order = [b["id"] for b in ss["blocks"]]
        natoms = {b["id"]: len(b["atoms"]) for b in ss["blocks"]}
        for i in mods:
            if i["op"] == "insert" and i.get("blk") in order and i["at"] == natoms[i["blk"]]:
                k = order.index(i["blk"])
                if k + 1 < len(order) and any(d["op"] == "delete" and d["blk"] == order[k + 1] and d.get("proxy") and d["at"] == 0
                                              and d["to"] == natoms[order[k + 1]] for d in mods):
                    return "C02-end-labels-follow-the-next-block-into-its-proxy"
    return None


def make_check_C02(tier):
    from harness import rewrite_shapes
    chk = make_rewrite_check("C02", tier, ["C02"])
    for sid, spec in rewrite_shapes.endlabel_next_proxy_shapes():
        chk.add(sid, h_rewrite, params=dict(spec=spec, props=["C02"]), timeout=900, allow_no_pass=True)
    return chk


def make_check_C04(tier):
    return make_rewrite_check("C04", tier, ["C04"])


def make_check_C06(tier):
    return make_rewrite_check("C06", tier, ["C06"])


# ---------------------------------------------------------------------------
# C03: the CFG, flattened to instructions, is the control flow of the edited listing
# ---------------------------------------------------------------------------
TRANSFERS = ("jmp", "jcc", "call", "icall", "ijmp", "ret", "rcall")


def expected_flow(sc, ls):
    """{atom id: set of (type, target, conditional, direct)} per rules R3-R5.
    target: atom id | 'proxy' | 'ext:<name>' | 'zero:<label>' (documented zero-sized block)."""
    flow = {}
    label_target = {}
    atoms_by_id = {}
    seq_by_section = {}
    for sname, items in ls.sections.items():
        seq = [it for it in items if it.t in ("atom", "gap", "label")]
        seq_by_section[sname] = seq
        for i, it in enumerate(seq):
            if it.t == "atom":
                atoms_by_id[it.id] = it
            if it.t == "label":
                nxt = next((x for x in seq[i + 1:] if x.t in ("atom", "gap")), None)
                # a temporary label is local to the patch that defines it (the library renames it per patch)
                key = (it.patch, it.sym) if getattr(it, "temp", False) else it.sym
                if getattr(it, "proxy", False):
                    label_target[key] = "proxyref"
                elif nxt is not None and nxt.t == "atom" and nxt.code:
                    label_target[key] = nxt.id
                else:
                    label_target[key] = "zero:" + it.sym
    for name in ls.ext:
        label_target[name] = "ext:" + name

    def resolve(label, patch=None):
        if label.startswith(".L"):
            return label_target.get((patch, label))
        return label_target.get(label)

    call_sites = {}
    for sname, seq in seq_by_section.items():
        bytes_seq = [x for x in seq if x.t in ("atom", "gap")]
        for i, it in enumerate(bytes_seq):
            if it.t != "atom" or not it.code:
                continue
            nxt = bytes_seq[i + 1] if i + 1 < len(bytes_seq) else None
            out = set()
            ft = nxt.id if (nxt is not None and nxt.t == "atom" and nxt.code and it.kind in L.FALLS_THROUGH) else None
            if ft is not None:
                out.add(("Fallthrough", ft, False, True))
            if it.kind in ("jmp", "jcc"):
                out.add(("Branch", resolve(it.target, getattr(it, "patch", None)), it.kind == "jcc", True))
            elif it.kind == "call":
                tgt = resolve(it.target, getattr(it, "patch", None))
                out.add(("Call", tgt, False, True))
                if ft is not None and tgt in atoms_by_id and atoms_by_id[tgt].func:
                    call_sites.setdefault(atoms_by_id[tgt].func, set()).add(ft)
            elif it.kind == "rcall":
                tgt = resolve(it.target, getattr(it, "patch", None))
                out.add(("Call", tgt, False, False))
                if ft is not None and tgt in atoms_by_id and atoms_by_id[tgt].func:
                    call_sites.setdefault(atoms_by_id[tgt].func, set()).add(ft)
            elif it.kind == "ijmp":
                out.add(("Branch", "proxy", False, False))
            elif it.kind == "icall":
                out.add(("Call", "proxy", False, False))
            flow[it.id] = out
    for aid, it in atoms_by_id.items():
        if it.code and it.kind == "ret":
            sites = call_sites.get(it.func, set()) if it.func else set()
            if sites:
                for s in sites:
                    flow[aid].add(("Return", s, False, True))
            else:
                flow[aid].add(("Return", "proxy", False, True))
    return flow, atoms_by_id


def check_cfg(sc, ls):
    eng = sc.eng
    m = sc.module
    cfg = sc.ir.cfg
    bases = _bases(sc)
    flow, atoms_by_id = expected_flow(sc, ls)
    # block -> ordered atoms (by listing position)
    block_atoms = {}
    atom_block = {}
    for sect in sc.sections:
        items, _ = ls.positions(sect.name)
        ranges = [(b, s, e) for (b, s, e) in block_ranges(sc, bases, code_only=False) if b.section is sect]
        for it, pos in items:
            if it.t != "atom":
                continue
            cover = [b for (b, s, e) in ranges if eng.must(And(s <= pos, pos + it.length <= e))]
            eng.check(len(cover) == 1, "C03 atom %s is covered by %d blocks" % (it.id, len(cover)))
            block_atoms.setdefault(cover[0], []).append(it)
            atom_block[it.id] = cover[0]
    sym_by_proxy = {}
    for s in m.symbols:
        if isinstance(s.referent, gtirb.ProxyBlock):
            sym_by_proxy.setdefault(s.referent, []).append(s.name)
    # every edge endpoint is part of the module
    for e in cfg:
        for node in (e.source, e.target):
            if isinstance(node, gtirb.ProxyBlock):
                eng.check(node in m.proxies, "C03 edge endpoint is a proxy outside the module")
            else:
                eng.check(node.byte_interval is not None and node.module is m, "C03 edge endpoint is a block that left the module")
    for blk, atoms in block_atoms.items():
        if not isinstance(blk, gtirb.CodeBlock):
            continue
        for a in atoms[:-1]:
            eng.check(a.kind not in TRANSFERS, "C03 control-transfer instruction %s (%s) is buried inside a block" % (a.id, a.kind),
                      category="buried", kind=a.kind)
        last = atoms[-1]
        got = set()
        for e in blk.outgoing_edges:
            t = e.target
            if isinstance(t, gtirb.ProxyBlock):
                names = [n for n in sym_by_proxy.get(t, []) if n in ls.ext]
                tgt = "ext:" + names[0] if names else "proxy"
            elif t.size == 0 or t not in block_atoms:
                labels = sorted(s.name for s in t.references)
                tgt = "zero:" + (labels[0] if labels else "?")
            else:
                tgt = block_atoms[t][0].id
            got.add((e.label.type.name, tgt, bool(e.label.conditional), bool(e.label.direct)))
        want = set()
        for (typ, tgt, cond, direct) in flow.get(last.id, set()):
            if tgt == "proxyref":
                tgt = "proxy"
            if isinstance(tgt, str) and tgt.startswith("zero:"):
                # any label of the same zero-sized block is fine: compare by block
                pass
            want.add((typ, tgt, cond, direct))
        if got != want:
            gz = {(a, "zero" if str(b).startswith("zero:") else b, c, d) for (a, b, c, d) in got}
            wz = {(a, "zero" if str(b).startswith("zero:") else b, c, d) for (a, b, c, d) in want}
            if gz == wz:
                continue
            # documented representations of "falls off into something that is not code any more":
            #  - nothing (or data) follows an instruction that can fall through: Fallthrough to a proxy / zero-sized block
            #  - the block that followed was deleted with retarget_to_proxy: its incoming edges go to the proxy
            can_ft = last.kind in L.FALLS_THROUGH
            has_ft = any(t == "Fallthrough" for (t, _, _, _) in wz)
            unknown_ft = {x for x in gz - wz if x[0] == "Fallthrough" and x[1] in ("proxy", "zero")}
            if can_ft and unknown_ft and (not has_ft or _proxy_deleted_successor(sc, last)):
                gz2 = gz - unknown_ft
                wz2 = {x for x in wz if x[0] != "Fallthrough"} if has_ft else wz
                if gz2 == wz2:
                    continue
            finding = _cfg_finding(sc, last, gz - wz, wz - gz)
            extra = sorted(map(str, gz - wz))
            missing = sorted(map(str, wz - gz))
            eng.fail("C03 edges of instruction %s (%s): unexpected %s, missing %s" % (last.id, last.kind, extra, missing),
                     category=_cfg_category(last, gz - wz, wz - gz), atom=str(last.id), finding=finding)
        # an edge must enter a block at its first instruction: holds by construction of `got` (targets map to
        # block_atoms[t][0]); what remains is that expected targets are block heads
        for (typ, tgt, cond, direct) in want:
            if tgt in atom_block:
                eng.check(block_atoms[atom_block[tgt]][0].id == tgt, "C03 edge target %s is not the first instruction of its block" % tgt)
    # zero-sized code blocks: exactly one outgoing edge, a fallthrough to a proxy
    for blk in m.code_blocks:
        if eng.must(blk.size == 0):
            outs = list(blk.outgoing_edges)
            eng.check(len(outs) == 1 and outs[0].label.type == gtirb.Edge.Type.Fallthrough
                      and isinstance(outs[0].target, gtirb.ProxyBlock),
                      "C03/C05 zero-sized code block without the documented fallthrough-to-proxy edge")


def _proxy_deleted_successor(sc, last):
    """Does the scenario delete, with retarget_to_proxy, the block that originally followed last's block?"""
    order = [b["id"] for s in sc.spec["sections"] for b in s["blocks"]]
    natoms = {b["id"]: len(b["atoms"]) for s in sc.spec["sections"] for b in s["blocks"]}
    if last.blk not in order:
        return False
    i = order.index(last.blk)
    for md in sc.spec.get("mods", []):
        if md["op"] == "delete" and md.get("proxy") and md["blk"] in order[i + 1:i + 2] + [last.blk]:
            return True
    return False


def _cfg_finding(sc, last, extra, missing):
    """Known-finding id for a CFG difference, or None (see known_findings.json)."""
    term = sc.bspec.get(last.blk, {}).get("atoms", ["o"])[-1].partition(":")[0]
    # ... or a patch inserted earlier into the same block ends in such a terminator and this code is placed behind it
    patch_term = any(md["op"] in ("insert", "replace") and md.get("blk") == last.blk and
                     (md.get("patch") == "ret" or str(md.get("patch", "")).startswith("jmp:"))
                     for md in sc.spec.get("mods", []))
    if not extra and missing and all(x[0] == "Fallthrough" for x in missing) and (term in ("jmp", "ret", "ijmp") or patch_term):
        return "C03-no-fallthrough-after-removed-or-passed-terminator"
    if not missing and extra and all(x[0] == "Return" for x in extra) and last.kind != "ret":
        func = sc.bspec.get(last.blk, {}).get("func")
        term = sc.bspec.get(last.blk, {}).get("atoms", ["o"])[-1]
        for md in sc.spec.get("mods", []):
            if md["op"] == "insert" and md["blk"] == last.blk and str(md.get("patch", "")).startswith("call:") and term == "ret":
                callee_blk = L.Listing.from_scenario(sc).label_block.get(md["patch"][5:])
                if callee_blk and sc.bspec[callee_blk].get("func") == func:
                    return "C03-recursive-call-in-ret-block"
    esyms = {s for b in sc.bspec.values() for s in b.get("esyms", [])}
    if last.kind in ("jmp", "jcc", "call") and last.target in esyms and extra and missing and \
            {x[0] for x in extra} == {x[0] for x in missing} <= {"Branch", "Call"}:
        return "C03-branch-to-at_end-symbol"
    if not missing and extra and all(x[0] == "Return" and x[1] == "proxy" for x in extra) and last.kind == "ret":
        for md in sc.spec.get("mods", []):
            if md["op"] == "replace" and str(md.get("patch", "")).startswith("call:"):
                return "C03-stale-proxy-return-edge"
    return None


def _cfg_category(last, extra, missing):
    et = sorted({x[0] for x in extra})
    mt = sorted({x[0] for x in missing})
    return "%s:+%s-%s" % (last.kind, ",".join(et), ",".join(mt))


PROP_CHECKS["C03"] = [check_bytes, check_cfg]


def make_check_C03(tier):
    return make_rewrite_check("C03", tier, ["C03"])


# ---------------------------------------------------------------------------
# C05: the output IR is closed, well-formed and serialisable, also after a failing patch
# ---------------------------------------------------------------------------
class InjectedFault(Exception):
    pass


def _walk_nodes(value, out):
    import uuid as _u
    if isinstance(value, gtirb.Node):
        out.append(value)
    elif isinstance(value, gtirb.Offset):
        out.append(value.element_id)
    elif isinstance(value, dict) or hasattr(value, "items") and hasattr(value, "keys"):
        for k, v in value.items():
            _walk_nodes(k, out)
            _walk_nodes(v, out)
    elif isinstance(value, (list, tuple, set, frozenset)):
        for v in value:
            _walk_nodes(v, out)


def check_closed(sc, ls, after_failure=False):
    eng = sc.eng
    m = sc.module
    ir = sc.ir
    eng.check(ir.cfg is sc.original_cfg, "C05 ir.cfg is not the caller's CFG object")
    eng.check(type(ir.cfg).__name__ == "CFG", "C05 ir.cfg is still a %s" % type(ir.cfg).__name__)
    in_module_blocks = set()
    for sect in m.sections:
        for bi in sect.byte_intervals:
            eng.check(bi.address is not None, "C05 byte interval without an address")
            blocks = sorted(bi.blocks, key=lambda b: (b.offset, b.size))
            for b in blocks:
                in_module_blocks.add(b)
                eng.check(And(b.offset >= 0, b.offset + b.size <= bi.size, b.size >= 0), "C05 block outside its byte interval")
            for b1, b2 in zip(blocks, blocks[1:]):
                eng.check(b1.offset + b1.size <= b2.offset, "C05 blocks overlap")

    def in_module(node):
        if isinstance(node, gtirb.ByteBlock):
            return node in in_module_blocks
        if isinstance(node, gtirb.ProxyBlock):
            return node in m.proxies
        if isinstance(node, gtirb.Symbol):
            return node in m.symbols
        if isinstance(node, gtirb.ByteInterval):
            return node.section is not None and node.section in m.sections
        if isinstance(node, gtirb.Section):
            return node in m.sections
        return True

    for e in ir.cfg:
        eng.check(in_module(e.source) and in_module(e.target), "C05 CFG edge endpoint outside the module: %r" % (e,))
    for s in m.symbols:
        ref = s.referent
        eng.check(ref is not None, "C05 symbol %s is stranded without a referent" % s.name)
        eng.check(in_module(ref), "C05 referent of symbol %s is outside the module" % s.name)
    for bi in m.byte_intervals:
        for k, expr in bi.symbolic_expressions.items():
            for sym in expr.symbols:
                eng.check(sym in m.symbols, "C05 symbolic expression refers to a symbol outside the module")
    for name, table in m.aux_data.items():
        nodes = []
        _walk_nodes(table.data, nodes)
        for n in nodes:
            if isinstance(n, gtirb.Node):
                eng.check(in_module(n), "C05 aux data table %s mentions a node outside the module: %r" % (name, n))
    if m.entry_point is not None:
        eng.check(in_module(m.entry_point), "C05 entry point outside the module")
    # zero-sized blocks only in the documented cases
    for b in in_module_blocks:
        if not eng.may(b.size == 0):
            continue
        eng.check(not after_failure or True, "")
        refs = list(b.references)
        sect_blocks = [x for x in b.section.byte_blocks if x is not b]
        has_in_edges = isinstance(b, gtirb.CodeBlock) and any(
            e.label.type != gtirb.Edge.Type.Fallthrough for e in b.incoming_edges)
        from gtirb_rewriting import _auxdata_offsetmap
        cfi = _auxdata_offsetmap.cfi_directives.get(m)
        has_cfi = bool(cfi and b in cfi and cfi[b])
        is_entry = m.entry_point is b
        from gtirb_rewriting import _auxdata as _ad
        is_entry = is_entry or _ad.elf_dynamic_init.get(m) is b or _ad.elf_dynamic_fini.get(m) is b
        documented = (refs and not sect_blocks) or has_in_edges or has_cfi or is_entry
        if not after_failure:
            eng.check(documented, "C05 zero-sized block left behind outside the documented cases")
    if not sc.sym:
        import io
        buf = io.BytesIO()
        ir.save_protobuf_file(buf)
        ir2 = gtirb.IR.load_protobuf_file(io.BytesIO(buf.getvalue()))
        eng.check(ir.deep_eq(ir2), "C05 IR changes over a protobuf save/load round trip")
    else:
        eng.ok()


def check_designators(sc, ls):
    """Entry point, elfDynamicInit and elfDynamicFini keep designating the same place of the listing: the block itself while
    it survives, otherwise the position its start label slid to (a code block there, or the documented zero-sized block)."""
    from gtirb_rewriting import _auxdata
    eng = sc.eng
    m = sc.module
    bases = _bases(sc)
    live = set(m.byte_blocks)
    for what, bid, got in (("entry point", sc.spec.get("entry_point"), m.entry_point),
                           ("elfDynamicInit", sc.spec.get("elf_init"), _auxdata.elf_dynamic_init.get(m)),
                           ("elfDynamicFini", sc.spec.get("elf_fini"), _auxdata.elf_dynamic_fini.get(m))):
        if not bid:
            continue
        eng.check(got is not None, "C05 the %s was dropped by the rewrite" % what)
        eng.check(isinstance(got, gtirb.CodeBlock) and got in live, "C05 the %s is not a code block of the module: %r" % (what, got))
        label = (sc.bspec[bid].get("syms") or [None])[0]
        sym = sc.symbols.get(label) if label else None
        if sym is not None and isinstance(sym.referent, gtirb.ByteBlock) and sym.referent in live:
            want = bases[sym.referent.byte_interval] + sym.referent.offset
            have = bases[got.byte_interval] + got.offset
            eng.check(have == want, "C05 the %s no longer designates the place its block's label designates" % what)


PROP_CHECKS["C05d"] = [check_bytes, check_closed, check_designators]


def h_rewrite_fault(eng, spec, fault_at):
    """The fault_at-th patch callback raises; what is left behind must be closed."""
    sc = srh.Scenario(eng, spec)
    sc.fault_at = fault_at
    sc.register()
    try:
        sc.apply()
    except InjectedFault:
        eng.check(sc.fault_snapshot is not None, "fault snapshot missing")
        eng.check(set(sc.ir.cfg) == sc.fault_snapshot,
                  "C05 after a failing patch ir.cfg does not hold the edges that were live at the failure "
                  "(missing %d, stale %d)" % (len(sc.fault_snapshot - set(sc.ir.cfg)), len(set(sc.ir.cfg) - sc.fault_snapshot)))
        check_closed(sc, None, after_failure=True)
        return
    except AssertionError as ex:
        if "modifications overlap" in str(ex) or known_crash(spec, ex):
            raise core.Abort()
        raise
    raise core.Abort()  # fewer patch invocations than fault_at


def h_rewrite_closed_only(eng, spec):
    sc = srh.Scenario(eng, spec)
    sc.register()
    sc.apply()
    check_closed(sc, None)


PROP_CHECKS["C05"] = [check_bytes, check_closed]


def make_check_C05(tier):
    from harness import rewrite_shapes
    chk = make_rewrite_check("C05", tier, ["C05"])
    for sid, spec in rewrite_shapes.shapes(tier):
        if crash_pattern(spec):
            continue
        if has_function_insertion(spec):
            continue
        npatch = sum(1 for md in spec["mods"] if md["op"] in ("insert", "replace") and md["patch"] != "rawbytes")
        for k in range(1, npatch + 1):
            if tier == "quick" and not (sid.startswith("pairs/") or sid.startswith("callgraph") or sid.startswith("mixed/")
                                         or "jcc:s0/i" in sid):
                continue
            chk.add("fault%d/%s" % (k, sid), h_rewrite_fault, params=dict(spec=spec, fault_at=k), timeout=900,
                    allow_no_pass=True)
    for sid, spec in rewrite_shapes.cfi_shapes(tier):
        if crash_pattern(spec):
            continue
        chk.add(sid, h_rewrite, params=dict(spec=spec, props=["C05"]), timeout=900)
    # closedness only (no position oracle): labels that slid onto a block which is then deleted with retarget_to_proxy
    import copy as _c
    dele = rewrite_shapes.dele
    for mods in ([dele("b0", 0, 2), dele("b1", 0, 3, proxy=True)], [dele("b0", 0, 2), dele("b1", 0, 3, proxy=True), dele("b2", 0, 2, proxy=True)]):
        spec = rewrite_shapes.nolabel_layout()
        spec["mods"] = _c.deepcopy(mods)
        chk.add("closed-only/nolabel/%s" % rewrite_shapes.mods_name(mods), h_rewrite_closed_only, params=dict(spec=spec), timeout=900)
    for mods in ([dele("b1", 0, 2), dele("b2", 0, 2, proxy=True)], [dele("b0", 0, 2), dele("b1", 0, 2), dele("b2", 0, 2, proxy=True)]):
        spec = rewrite_shapes.mixed_layout()
        spec["sections"][0]["blocks"][2]["syms"] = []
        spec["sections"][0]["blocks"][0]["atoms"] = ["o", "o"]
        spec["annots"] = [a for a in spec["annots"] if a.get("sym") != "s2"]
        spec["mods"] = _c.deepcopy(mods)
        chk.add("closed-only/mixed/%s" % rewrite_shapes.mods_name(mods), h_rewrite_closed_only, params=dict(spec=spec), timeout=900)
    # module-level designators (entry point, elfDynamicInit, elfDynamicFini) on a block that is edited or deleted, followed
    # by code, by data, or by nothing
    for key in ("entry_point", "elf_init", "elf_fini"):
        for lay, bid, mods in (("mixed", "b0", [dele("b0", 0, 2)]), ("mixed", "b2", [dele("b2", 0, 2)]), ("mixed", "b0", [dele("b0", 0, 1)]),
                               ("text", "b1", [dele("b1", 0, 3)]), ("text", "b2", [dele("b2", 0, 2)]), ("text", "b1", [rewrite_shapes.ins("b1", 0, "mov")]),
                               ("text", "b0", [dele("b0", 0, 2), dele("b1", 0, 3)])):
            spec = {"mixed": rewrite_shapes.mixed_layout, "text": lambda: rewrite_shapes.text_layout("o")}[lay]()
            spec[key] = bid
            spec["mods"] = _c.deepcopy(mods)
            chk.add("designator/%s/%s/%s/%s" % (key, lay, bid, rewrite_shapes.mods_name(mods)), h_rewrite,
                    params=dict(spec=spec, props=["C05d"]), timeout=900)
    # block-keyed tables (types, encodings, sccs, profile): blocks that are merged away or removed must leave them
    ins = rewrite_shapes.ins
    for lay, mods in (("mixed", [ins("d0", 1, "string")]), ("mixed", [ins("b1", 1, "string")]), ("mixed", [ins("d0", 0, "string")]),
                      ("mixed", [ins("d0", 2, "string")]), ("mixed", [dele("d0", 0, 2)]), ("mixed", [dele("b1", 0, 2)]),
                      ("mixed", [dele("d0", 0, 1)]), ("mixed", [ins("d1", 0, "byte")]),
                      ("nolabel", [dele("b0", 1, 2)]), ("nolabel", [ins("b0", 2, "mov")]), ("nolabel", [ins("b1", 0, "mov")]),
                      ("nolabel", [ins("b0", 1, "jcc_tmp")]), ("nolabel", [dele("b1", 0, 3)]), ("nolabel", [ins("b0", 2, "ret")]),
                      ("text", [ins("b1", 1, "label")]), ("text", [dele("b1", 0, 3)]), ("text", [ins("b1", 3, "mov"), dele("b2", 0, 1)])):
        spec = {"mixed": rewrite_shapes.mixed_layout, "nolabel": rewrite_shapes.nolabel_layout,
                "text": rewrite_shapes.text_layout}[lay]()
        spec["blockaux"] = True
        spec["mods"] = _c.deepcopy(mods)
        chk.add("blockaux/%s/%s" % (lay, rewrite_shapes.mods_name(mods)), h_rewrite, params=dict(spec=spec, props=["C05"]), timeout=900)
    # one proxy shared by the return edges of several functions: a patch that calls one of them must not take it away
    for term, mods in (("ret", [ins("b0", 1, "call:s2")]), ("ret", [ins("b2", 1, "call:s0")]), ("ret", [rewrite_shapes.rep("b0", 0, 1, "call:s2")]),
                       ("ret", [ins("b0", 1, "call:s2"), dele("b1", 2, 3)]), ("jmp:s0", [ins("b0", 0, "call:s2")])):
        spec = rewrite_shapes.text_layout(term)
        spec["shared_ret_proxy"] = True
        spec["mods"] = _c.deepcopy(mods)
        chk.add("shared-proxy/%s/%s" % (term, rewrite_shapes.mods_name(mods)), h_rewrite, params=dict(spec=spec, props=["C05"]), timeout=900)
    # alignment entries of an existing block and of a patch's first block meeting at offset 0
    for b1a, patch in ((16, "lead_align4"), (4, "lead_align16"), (4, "lead_align4")):
        spec = rewrite_shapes.text_layout("o", annots=False)
        spec["sections"][0]["blocks"][1]["align"] = b1a
        spec["aligned_base"] = True
        spec["mods"] = [ins("b1", 0, patch)]
        chk.add("align-meet/b1a%d/%s" % (b1a, patch), h_rewrite_closed_only, params=dict(spec=spec), timeout=900)
    chk.bounds["designators"] = "entry point / elfDynamicInit / elfDynamicFini on a block that is cut, deleted (next: code, data, nothing) or inserted into"
    chk.bounds["block-keyed tables"] = ("types/encodings on every data block, sccs/profile on every code block of the layout; "
                                        ".string patches (the assembler records an encoding for their block)")
    chk.bounds["fault injection"] = "an exception raised from the k-th Patch.get_asm callback, every k up to the number of patches"
    chk.bounds["serialisation"] = "witness-level: the protobuf save/load round trip runs in the concrete replays only (protobuf is FFI)"
    return chk


# ---------------------------------------------------------------------------
# C08: call-frame information is preserved
# ---------------------------------------------------------------------------
def impl_cfi_sequence(sc, bases):
    """[(listing position, (name, operands, symbol name|None))] in listing order, per section"""
    from gtirb_rewriting import _auxdata_offsetmap
    eng = sc.eng
    tbl = _auxdata_offsetmap.cfi_directives.get(sc.module)
    out = {sect: [] for sect in sc.sections}
    if not tbl:
        return out
    for elem in list(tbl.node_keys()):
        eng.check(isinstance(elem, gtirb.CodeBlock) and elem.byte_interval is not None and elem.module is sc.module,
                  "C08/C05 cfiDirectives is keyed by a node that is not a code block of the module: %r" % (elem,))
    for sect in sc.sections:
        blocks = [b for b in sect.byte_blocks if b in tbl and tbl[b]]
        blocks.sort(key=lambda b: (bases[b.byte_interval] + b.offset, b.size != 0))
        seq = []
        for b in blocks:
            start = bases[b.byte_interval] + b.offset
            for disp, dirs in sorted(tbl[b].items()):
                eng.check(And(disp >= 0, disp <= b.size), "C08 CFI directive displacement outside its block")
                for (name, ops, ref) in dirs:
                    seq.append((start + disp, (name, list(ops), ref.name if isinstance(ref, gtirb.Symbol) else None)))
        # stable order by position (positions are decided on this path)
        for i in range(1, len(seq)):
            jx = i
            while jx > 0 and bool(seq[jx][0] < seq[jx - 1][0]):
                seq[jx], seq[jx - 1] = seq[jx - 1], seq[jx]
                jx -= 1
        out[sect] = seq
    return out


def check_cfi(sc, ls):
    eng = sc.eng
    bases = _bases(sc)
    got = impl_cfi_sequence(sc, bases)
    ls.mark_empty_procedures()
    for sect in sc.sections:
        items, _ = ls.positions(sect.name)
        exp = [(pos, it) for it, pos in items if it.t == "cfi"]
        seq = got[sect]
        units = sorted({it.cls for _, it in exp if it.cls.startswith("unit")})
        structural = (".cfi_startproc", ".cfi_endproc", ".cfi_remember_state", ".cfi_restore_state")
        import itertools
        matched = False
        best = None
        for drop in itertools.product([False, True], repeat=len(units)):
            dropped = {u for u, d in zip(units, drop) if d}
            want_list = [(pos, it) for pos, it in exp if it.cls not in dropped]
            optional = {id(it) for pos, it in want_list if it.cls == "may" or (it.cls.startswith("unit") and it.name not in structural)}

            def match(i, g, memo):
                """can want_list[i:] be matched against seq[g:] (may-items optional)?"""
                key = (i, g)
                if key in memo:
                    return memo[key]
                if i == len(want_list):
                    r = g == len(seq)
                else:
                    pos, it = want_list[i]
                    want = (it.name, list(it.operands), getattr(it, "sym", None))
                    r = False
                    if g < len(seq) and seq[g][1] == want and eng.must(seq[g][0] == pos):
                        r = match(i + 1, g + 1, memo)
                    if not r and id(it) in optional:
                        r = match(i + 1, g, memo)
                memo[key] = r
                return r

            if match(0, 0, {}):
                matched = True
                break
        if not matched:
            eng.fail("C08 CFI directives after the rewrite do not match the edited listing: module has %s, listing model "
                     "expects %s" % ([(str(p), d[0], d[1]) for p, d in seq],
                                     [(str(p), it.name, it.operands, it.cls) for p, it in exp]),
                     category="cfi-sequence", finding=_cfi_finding(sc))
        # the surviving table must evaluate cleanly: procedures opened and closed exactly once, in order
        depth = 0
        for _, (name, ops, ref) in seq:
            if name == ".cfi_startproc":
                eng.check(depth == 0, "C08 nested .cfi_startproc after the rewrite")
                depth += 1
            elif name == ".cfi_endproc":
                eng.check(depth == 1, "C08 .cfi_endproc outside a procedure after the rewrite")
                depth -= 1
            else:
                eng.check(depth == 1, "C08 directive %s outside a procedure after the rewrite" % name)
        eng.check(depth == 0, "C08 unterminated CFI procedure after the rewrite")
        # every instruction is inside a procedure iff the listing model says so
        exp_cover = {}
        depth = 0
        for it, pos in items:
            if it.t == "cfi":
                depth += 1 if it.name == ".cfi_startproc" else (-1 if it.name == ".cfi_endproc" else 0)
            elif it.t == "atom" and it.code:
                exp_cover[it.id] = (pos, depth > 0)
        for aid, (pos, inside) in exp_cover.items():
            d = 0
            for p, (name, ops, ref) in seq:
                if eng.must(p <= pos):
                    d += 1 if name == ".cfi_startproc" else (-1 if name == ".cfi_endproc" else 0)
            eng.check((d > 0) == inside, "C08 instruction %s is %s a CFI procedure, expected %s" % (
                aid, "inside" if d > 0 else "outside", "inside" if inside else "outside"))


def _cfi_finding(sc):
    """Known-finding id for a CFI sequence difference, or None (see known_findings.json): code inserted at the end of a
    block whose tail - including the instruction a .cfi_startproc sits on - is deleted or replaced by the same context."""
    mods = sc.spec.get("mods", [])
    for a in mods:
        if a["op"] != "insert":
            continue
        n = len(sc.bspec[a["blk"]]["atoms"])
        if a["at"] != n:
            continue
        for b in mods:
            if b["op"] in ("delete", "replace") and b["blk"] == a["blk"] and b["to"] == n:
                for c in sc.spec.get("cfi", []):
                    if c["blk"] == a["blk"] and b["at"] <= c["at"] < n and any(d[0] == ".cfi_startproc" for d in c["dirs"]):
                        return "C08-insert-at-end-of-block-whose-tail-with-startproc-is-deleted"
    return None


PROP_CHECKS["C08"] = [check_bytes, check_cfi]


def make_check_C08(tier):
    from harness import rewrite_shapes
    chk = run.Check("C08", tier)
    chk.install_shims = install
    chk.classify_exception = classify
    for sid, spec in rewrite_shapes.cfi_shapes(tier):
        if crash_pattern(spec) and not cfi_tail_data_pattern(spec):
            continue  # apply() dies on these (finding recorded under C01); nothing to evaluate
        chk.add(sid, h_rewrite, params=dict(spec=spec, props=["C08"]), timeout=900, allow_no_pass=cfi_tail_data_pattern(spec))
    chk.bounds = dict(BOUNDS)
    chk.bounds["cfi layouts"] = ("one procedure over three blocks with personality/LSDA, remember/restore and directives at block "
                                 "start, instruction boundaries and block end; two adjacent procedures; procedures separated "
                                 "by a data block")
    chk.assumptions = list(ASSUME) + [
        "oracle rule R9: structural directives must survive in place; a non-structural directive may be dropped when an "
        "instruction adjacent to its boundary is deleted; a complete procedure inside a wholly deleted block may be dropped "
        "as a unit; a patch's own directives are discarded when the insertion point is outside every procedure"]
    return chk


# ---------------------------------------------------------------------------
# C09 / C11: self-composition (two copies of one symbolic scenario)
# ---------------------------------------------------------------------------
def snapshot(sc, temp_exact):
    """Flatten a rewritten module to listing vocabulary (no UUIDs)."""
    from gtirb_rewriting import _auxdata, _auxdata_offsetmap
    m = sc.module
    bases = _bases(sc)
    snap = {"sections": {}, "symbols": {}, "blocks": [], "edges": [], "exprs": [], "aux": {}, "funcs": []}

    def bpos(b):
        return (b.section.name, bases[b.byte_interval] + b.offset)

    def norm(name):
        if temp_exact or not name.startswith(".L"):
            return name
        return name.rsplit("_", 1)[0]

    proxy_name = {}
    for s in m.symbols:
        if isinstance(s.referent, gtirb.ProxyBlock):
            proxy_name.setdefault(s.referent, []).append(norm(s.name))
    for sect in sc.sections:
        rope, _ = sc.flatten_bytes(sect)
        snap["sections"][sect.name] = rope
    for s in m.symbols:
        ref = s.referent
        if isinstance(ref, gtirb.ByteBlock):
            sec, p = bpos(ref)
            val = ("block", sec, p + (ref.size if s.at_end else 0))
        else:
            val = ("proxy" if isinstance(ref, gtirb.ProxyBlock) else "none",)
        if norm(s.name) != s.name:
            # temporary labels of different patches may share their name up to the suffix: compared as a multiset
            snap.setdefault("temps", []).append((norm(s.name),) + val)
        else:
            snap["symbols"][s.name] = val
    for b in m.byte_blocks:
        sec, p = bpos(b)
        snap["blocks"].append((sec, p, b.size, type(b).__name__))

    def node(n):
        if isinstance(n, gtirb.ProxyBlock):
            return ("proxy", tuple(sorted(proxy_name.get(n, []))))
        sec, p = bpos(n)
        return ("block", sec, p, n.size)

    for e in sc.ir.cfg:
        snap["edges"].append((node(e.source), node(e.target), e.label.type.name, bool(e.label.conditional), bool(e.label.direct)))
    for bi in m.byte_intervals:
        for k, expr in bi.symbolic_expressions.items():
            snap["exprs"].append((bi.section.name, bases[bi] + k, type(expr).__name__,
                                  tuple(norm(x.name) for x in expr.symbols), getattr(expr, "offset", None),
                                  tuple(sorted(str(a) for a in expr.attributes))))
    for tdef in (_auxdata_offsetmap.comments, _auxdata_offsetmap.padding, _auxdata_offsetmap.symbolic_expression_sizes,
                 _auxdata_offsetmap.cfi_directives):
        tbl = tdef.get(m)
        rows = []
        if tbl is not None:
            for elem in list(tbl.node_keys()):
                for disp, value in tbl[elem].items():
                    if isinstance(elem, gtirb.ByteInterval):
                        rows.append((elem.section.name, bases[elem] + disp, _plain(value)))
                    elif elem.byte_interval is not None:
                        rows.append((elem.section.name, bases[elem.byte_interval] + elem.offset + disp, _plain(value)))
                    else:
                        rows.append(("<detached>", disp, _plain(value)))
        snap["aux"][tdef.name] = rows
    fb = _auxdata.function_blocks.get(m) or {}
    fe = _auxdata.function_entries.get(m) or {}
    fn = _auxdata.function_names.get(m) or {}
    for u, blocks in fb.items():
        snap["funcs"].append((norm(fn[u].name) if u in fn else None,
                              [bpos(b) + (b.size,) for b in blocks], [bpos(b) for b in fe.get(u, ())]))
    return snap


def _plain(v):
    if isinstance(v, gtirb.Symbol):
        return "sym:" + v.name
    if isinstance(v, (list, tuple)):
        return tuple(_plain(x) for x in v)
    import uuid as _u
    if isinstance(v, _u.UUID):
        return "uuid"
    return v


def _same_tuple(eng, a, b):
    """Are two flattened tuples provably equal (positions are engine ints)?"""
    if isinstance(a, (tuple, list)) and isinstance(b, (tuple, list)):
        return len(a) == len(b) and all(_same_tuple(eng, x, y) for x, y in zip(a, b))
    if core.is_sym(a) or core.is_sym(b) or (isinstance(a, int) and isinstance(b, int) and not isinstance(a, bool)):
        return eng.must(a == b)
    return a == b


def _same_multiset(eng, xs, ys, what):
    ys = list(ys)
    eng.check(len(xs) == len(ys), "%s: %d vs %d entries" % (what, len(xs), len(ys)))
    for x in xs:
        hit = next((i for i, y in enumerate(ys) if _same_tuple(eng, x, y)), None)
        if hit is None:
            eng.fail("%s: %r has no counterpart" % (what, x), category=what)
        del ys[hit]


def compare_snapshots(eng, a, b, label):
    for name in a["sections"]:
        if eng.sym:
            rope_equal_check(eng, a["sections"][name], b["sections"][name], "%s bytes of %s" % (label, name))
        else:
            eng.check(a["sections"][name] == b["sections"][name], "%s bytes of %s differ" % (label, name))
    eng.check(set(a["symbols"]) == set(b["symbols"]), "%s symbol names differ: %s" % (
        label, sorted(set(a["symbols"]) ^ set(b["symbols"]))))
    for n, v in a["symbols"].items():
        eng.check(_same_tuple(eng, v, b["symbols"][n]), "%s symbol %s designates different places" % (label, n))
    _same_multiset(eng, a.get("temps", []), b.get("temps", []), label + " temporary labels")
    _same_multiset(eng, a["blocks"], b["blocks"], label + " block boundaries")
    _same_multiset(eng, a["edges"], b["edges"], label + " CFG edges")
    _same_multiset(eng, a["exprs"], b["exprs"], label + " symbolic expressions")
    for t in a["aux"]:
        _same_multiset(eng, a["aux"][t], b["aux"].get(t, []), label + " aux table " + t)
    fa = sorted(a["funcs"], key=lambda f: str(f[0]))
    fb_ = sorted(b["funcs"], key=lambda f: str(f[0]))
    eng.check([f[0] for f in fa] == [f[0] for f in fb_], label + " function sets differ")
    for x, y in zip(fa, fb_):
        _same_multiset(eng, x[1], y[1], label + " functionBlocks of %s" % x[0])
        _same_multiset(eng, x[2], y[2], label + " functionEntries of %s" % x[0])


def batch_order(sc):
    """Modification indices in the order a single apply() performs them."""
    order_blocks = [b["id"] for s in sc.spec["sections"] for b in s["blocks"]]
    mods = list(enumerate(sc.spec.get("mods", [])))
    return sorted(mods, key=lambda im: (order_blocks.index(im[1]["blk"]), im[1]["at"], im[0]))


def h_batch_vs_single(eng, spec):
    """C09: one apply() == one context per modification (and cache monitors)."""
    import gtirb_functions
    from gtirb_rewriting import RewritingContext
    eng.reuse_vars = True
    a = srh.Scenario(eng, spec)
    a.register()
    mon = CacheMonitor(a)
    try:
        with mon:
            a.apply()
    except AssertionError as ex:
        if "modifications overlap" in str(ex) or known_crash(spec, ex):
            raise core.Abort()
        raise
    b = srh.Scenario(eng, spec)
    # one context per modification in address order (same-offset requests in registration order); each request is
    # located again by its listing position in the current IR
    shifts = {}
    prev_key = None
    for mi, md in batch_order(b):
        sect = b.blocks[md["blk"]].section if b.blocks[md["blk"]].byte_interval is not None else \
            next(s for s in b.sections if s.name == a.model.block_section[md["blk"]])
        p0 = b.orig_block_pos[md["blk"]] + b.boundary(md["blk"], md["at"])
        ln = (b.boundary(md["blk"], md["to"]) - b.boundary(md["blk"], md["at"])) if "to" in md else 0
        natoms = len(b.atoms[md["blk"]])
        key = (md["blk"], md["at"])
        # an insertion at the end of a block stays in that block; a second insertion at the position of an earlier one
        # goes where the batch puts it: into the block that follows the first patch, at offset 0
        prefer_end = md["at"] == natoms and md["op"] == "insert"
        prev_key = key
        shift = shifts.get(sect.name, 0)
        blk, off = locate(b, sect, p0 + shift, ln, prefer_end)
        before = _section_size(b, sect)
        b.functions = gtirb_functions.Function.build_functions(b.module) if b.func_uuids else []
        b.register(only=mi, located=(blk, off, ln))
        try:
            b.apply()
        except AssertionError as ex:
            if "modifications overlap" in str(ex):
                raise core.Abort()
            raise
        shifts[sect.name] = shift + (_section_size(b, sect) - before)
    b.spec = spec
    compare_snapshots(eng, snapshot(a, False), snapshot(b, False), "C09 batch vs one-at-a-time:")
    # "up to temporary-label suffixes" does not mean "up to collisions": in either copy every symbol name is used once
    for which, sc_ in (("batch", a), ("one context per modification", b)):
        names = sorted(s_.name for s_ in sc_.module.symbols)
        dup = sorted({n for n in names if names.count(n) > 1})
        eng.check(not dup, "C09/C13 after the %s rewrite several symbols share one name: %s" % (which, dup))


def _section_size(sc, sect):
    t = 0
    for bi in sect.byte_intervals:
        t = t + bi.size
    return t


def locate(sc, sect, pos, ln, prefer_end):
    """(block, offset) of listing position pos in the current IR of sc."""
    eng = sc.eng
    _, bases = sc.flatten_bytes(sect)
    cands = []
    for blk in sect.byte_blocks:
        start = bases[blk.byte_interval] + blk.offset
        if eng.must(And(start <= pos, pos + ln <= start + blk.size)):
            cands.append((blk, start))
    eng.check(len(cands) > 0, "C09 harness: no block covers listing position of a request")
    nonempty = [(b, s) for (b, s) in cands if not eng.must(b.size == 0)] or cands
    if prefer_end:
        ends = [(b, s) for (b, s) in nonempty if eng.must(s + b.size == pos)]
        if ends:
            return ends[0][0], pos - ends[0][1]
    starts = [(b, s) for (b, s) in nonempty if eng.must(s == pos)]
    if starts and not prefer_end:
        return starts[0][0], 0
    b, s = nonempty[0]
    return b, pos - s


class CacheMonitor:
    """Wraps rewriting.insert / rewriting.delete / RewritingContext._invoke_patch (module attributes, no source
    change) and compares the rewrite caches with the IR after every step."""

    def __init__(self, sc):
        self.sc = sc
        self.steps = 0

    def __enter__(self):
        import gtirb_rewriting.rewriting as RW
        self.RW = RW
        self.orig = (RW.insert, RW.delete, RW.prepare_for_rewriting)
        mon = self

        def insert(cache, *a, **kw):
            r = mon.orig[0](cache, *a, **kw)
            mon.after_step(cache, "insert")
            return r

        def delete(cache, *a, **kw):
            r = mon.orig[1](cache, *a, **kw)
            mon.after_step(cache, "delete")
            return r

        RW.insert, RW.delete = insert, delete
        import contextlib
        orig_mmc = RW.make_modify_cache
        self.orig_mmc = orig_mmc
        self.cache = None

        @contextlib.contextmanager
        def mmc(module, functions):
            with orig_mmc(module, functions) as c:
                mon.cache = c
                yield c

        RW.make_modify_cache = mmc
        ctx = self.sc.ctx
        inner = ctx._invoke_patch

        def invoke(patch, actual_block, actual_offset, context, **kw):
            mon.before_patch(getattr(patch, "_symx_text", ""))
            return inner(patch, actual_block, actual_offset, context, **kw)

        ctx._invoke_patch = invoke
        return self

    def __exit__(self, *exc):
        self.RW.insert, self.RW.delete = self.orig[0], self.orig[1]
        self.RW.make_modify_cache = self.orig_mmc
        return False

    # ---- ground truth ---------------------------------------------------------
    def true_order(self, sect):
        """Blocks of a section in listing order while intervals are split: original interval order, then offset."""
        ivs = sorted(sect.byte_intervals, key=lambda bi: self.iv_rank.get(bi, 1 << 30))
        out = []
        for bi in ivs:
            out += sorted(bi.blocks, key=lambda b: (b.offset, b.size != 0))
        return out

    def after_step(self, cache, what):
        from gtirb_rewriting import _auxdata
        eng = self.sc.eng
        m = self.sc.module
        self.steps += 1
        # function of a block
        fb = _auxdata.function_blocks.get(m) or {}
        inv = {}
        for u, blocks in fb.items():
            for b in blocks:
                inv[b] = u
        live = {b for b in m.code_blocks}
        cached = {b: u for b, u in cache.functions_by_block.items() if b in live}
        eng.check(cached == {b: u for b, u in inv.items() if b in live},
                  "C09 after %s #%d: functions_by_block disagrees with functionBlocks" % (what, self.steps))
        # return edges of a block
        truth = {}
        for e in m.ir.cfg:
            if e.label.type == gtirb.Edge.Type.Return:
                truth.setdefault(e.source, set()).add(e)
        for b in live:
            eng.check(cache.return_cache.block_return_edges(b) == truth.get(b, set()),
                      "C09 after %s #%d: return-edge cache disagrees with the CFG" % (what, self.steps))
            eng.check(cache.return_cache.any_return_edges(b) == bool(truth.get(b)),
                      "C09 after %s #%d: any_return_edges disagrees with the CFG" % (what, self.steps))
        # neighbouring blocks: adjacent_blocks must be mutually consistent and cover exactly the live blocks
        for sect in m.sections:
            blocks = list(sect.byte_blocks)
            heads = [b for b in blocks if cache.adjacent_blocks(b)[0] is None]
            eng.check(len(heads) == (1 if blocks else 0), "C09 after %s #%d: block ordering has %d heads" % (what, self.steps, len(heads)))
            seen = []
            cur = heads[0] if heads else None
            while cur is not None and len(seen) <= len(blocks):
                seen.append(cur)
                nxt = cache.adjacent_blocks(cur)[1]
                if nxt is not None:
                    eng.check(cache.adjacent_blocks(nxt)[0] is cur, "C09 block ordering is not a consistent doubly linked list")
                cur = nxt
            eng.check(set(seen) == set(blocks) and len(seen) == len(blocks),
                      "C09 after %s #%d: block ordering does not list exactly the section's blocks" % (what, self.steps))
            # inside one byte interval the cached order must follow offsets
            for x, y in zip(seen, seen[1:]):
                if x.byte_interval is y.byte_interval:
                    eng.check(x.offset + x.size <= y.offset if core.is_sym(x.offset) or True else True,
                              "C09 after %s #%d: cached block order contradicts offsets" % (what, self.steps))

    def referent_readonly(self, cache, sym):
        """What ReferenceCache.get_referent would return, without mutating the cache."""
        rc = cache.reference_cache
        node = rc._referents.get(sym)
        if node is None:
            return sym.referent
        while not isinstance(node.parent, gtirb.Block):
            node = node.parent
        return node.parent

    def before_patch(self, text):
        """A component that reads the IR directly (the assembler resolving the labels a patch names) must see the
        referent the reference cache would report."""
        if self.cache is None:
            return
        import re
        eng = self.sc.eng
        names = set(re.findall(r"[A-Za-z_.][A-Za-z0-9_.]*", text))
        for s in self.sc.module.symbols:
            if s.name not in names:
                continue
            want = self.referent_readonly(self.cache, s)
            eng.check(s.referent is want, "C09 before a patch is assembled, symbol %s reads referent %r directly but the "
                      "reference cache reports %r" % (s.name, s.referent, want), finding=self.stale_finding(s), symbol=s.name)

    def stale_finding(self, sym):
        # a label whose block an earlier modification of the same apply() deleted entirely
        for md in self.sc.spec.get("mods", []):
            if md and md["op"] == "delete" and not md.get("proxy"):
                bs = self.sc.bspec[md["blk"]]
                if md["at"] == 0 and md["to"] == len(bs["atoms"]) and sym.name in bs.get("syms", []) + bs.get("esyms", []):
                    return "C09-label-of-deleted-block-unresolved-mid-rewrite"
        return None


PROP_CHECKS["C09"] = []


def make_check_C09(tier):
    from harness import rewrite_shapes
    chk = run.Check("C09", tier)
    chk.install_shims = install
    chk.classify_exception = classify
    for sid, spec in rewrite_shapes.shapes(tier) + rewrite_shapes.cfi_shapes(tier):
        if crash_pattern(spec) or not spec.get("mods") or has_function_insertion(spec):
            continue
        if tier == "quick" and len(spec["mods"]) < 2 and not (sid.startswith("text/jcc") or sid.startswith("callgraph")):
            continue
        chk.add(sid, h_batch_vs_single, params=dict(spec=spec), timeout=900)
    # a later patch of the same block names a label whose reference an earlier modification of that block left pending
    # in the cache (end-of-block label of a block that was split and joined again, start label of a block cut at its head)
    import copy as _c
    ins, dele = rewrite_shapes.ins, rewrite_shapes.dele
    # the same temporary label in two patches: each context of the one-at-a-time copy hands out its suffixes itself
    for mods in ([ins("b0", 1, "jcc_tmp"), ins("b2", 1, "jcc_tmp")], [ins("b1", 1, "jcc_tmp"), ins("b1", 2, "jcc_tmp")],
                 [ins("b0", 0, "selfloop"), ins("b1", 0, "selfloop"), ins("b2", 0, "selfloop")]):
        spec = rewrite_shapes.text_layout("jcc:s0")
        spec["mods"] = _c.deepcopy(mods)
        chk.add("twotemps/%s" % rewrite_shapes.mods_name(mods), h_batch_vs_single, params=dict(spec=spec), timeout=900)
    for mods in ([ins("b1", 1, "mov"), ins("b1", 2, "jmp:e1")], [ins("b1", 1, "mov"), ins("b1", 2, "call:e1")],
                 [dele("b1", 0, 1), ins("b1", 2, "jmp:s1")], [ins("b1", 1, "label"), ins("b1", 2, "jmp:s1b")],
                 [dele("b1", 1, 2), ins("b1", 3, "jmp:e1")], [ins("b1", 1, "trail_label"), ins("b1", 2, "jmp:e1")]):
        spec = rewrite_shapes.text_layout("o")
        spec["mods"] = _c.deepcopy(mods)
        chk.add("pending-ref/%s" % rewrite_shapes.mods_name(mods), h_batch_vs_single, params=dict(spec=spec), timeout=900)
    chk.bounds = dict(BOUNDS)
    chk.assumptions = list(ASSUME) + [
        "one-at-a-time application runs from the highest listing position to the lowest (same-offset requests in reverse "
        "registration order) so that pending requests keep their block and offset; the result is compared with the batch "
        "result up to UUIDs and temporary-label suffixes",
        "cache monitors wrap rewriting.insert/rewriting.delete (module attributes; no repository hook needed)"]
    return chk


# ---------------------------------------------------------------------------
# C11 (registration-order clause): the result does not depend on the order in which modifications that
# target different locations were registered
# ---------------------------------------------------------------------------
def legal_permutations(mods):
    """Permutations of the modification list that keep the relative order of requests at the same location."""
    import itertools
    out = []
    idx = list(range(len(mods)))
    for perm in itertools.permutations(idx):
        if list(perm) == idx:
            continue
        ok = True
        for a in range(len(perm)):
            for b in range(a + 1, len(perm)):
                i, j = perm[a], perm[b]
                same = mods[i]["blk"] == mods[j]["blk"] and (
                    mods[i]["at"] == mods[j]["at"] or _touch(mods[i], mods[j]))
                if same and i > j:
                    ok = False
        if ok:
            out.append(perm)
    return out


def _touch(m1, m2):
    """Requests whose ranges share an end point are 'the same location' for ordering purposes (the library orders
    them by registration id)."""
    def rng(m):
        return (m["at"], m.get("to", m["at"]))
    a, b = rng(m1), rng(m2)
    return a[0] in b or a[1] in b


def h_reorder(eng, spec, perm):
    eng.reuse_vars = True
    a = srh.Scenario(eng, spec)
    a.register()
    try:
        a.apply()
    except AssertionError as ex:
        if "modifications overlap" in str(ex) or known_crash(spec, ex):
            raise core.Abort()
        raise
    spec_b = dict(spec, mods=[dict(spec["mods"][i], uid=i) for i in perm])
    b = srh.Scenario(eng, spec_b)
    b.register()
    try:
        b.apply()
    except AssertionError as ex:
        if "modifications overlap" in str(ex):
            eng.fail("C11 a registration order that only swaps requests at different locations is rejected as overlapping")
        raise
    compare_snapshots(eng, snapshot(a, True), snapshot(b, True), "C11 registration order %s:" % (list(perm),))


def h_uuid_swap(eng, where):
    """C11, UUID clause, for the one place where UUID *values* (not identity) could leak into the result: two functions
    share a tail block; the same rewrite on two copies that differ only in which of the two function UUIDs is the smaller
    one must give the same function tables."""
    import gtirb_functions
    import gtirb_rewriting
    from gtirb_rewriting import Patch, RewritingContext, _auxdata

    def run_once(u1, u2):
        ir = gtirb.IR()
        m = gtirb.Module(name="m", isa=gtirb.Module.ISA.X64, file_format=gtirb.Module.FileFormat.ELF, ir=ir,
                         byte_order=gtirb.Module.ByteOrder.Little)
        sect = gtirb.Section(name=".text", module=m, flags={gtirb.Section.Flag.Readable, gtirb.Section.Flag.Executable,
                                                            gtirb.Section.Flag.Loaded, gtirb.Section.Flag.Initialized})
        # f1: [nop; jmp tail]   f2: [nop; nop]  ->  tail: [nop; nop; ret] shared by both
        bi = gtirb.ByteInterval(contents=b"\x90\xeb\x02" + b"\x90\x90" + b"\x90\x90\xc3", address=0x1000, section=sect)
        e1 = gtirb.CodeBlock(offset=0, size=3, byte_interval=bi)
        e2 = gtirb.CodeBlock(offset=3, size=2, byte_interval=bi)
        tail = gtirb.CodeBlock(offset=5, size=3, byte_interval=bi)
        ir.cfg.add(gtirb.Edge(e1, tail, gtirb.Edge.Label(gtirb.Edge.Type.Branch, direct=True)))
        ir.cfg.add(gtirb.Edge(e2, tail, gtirb.Edge.Label(gtirb.Edge.Type.Fallthrough)))
        ir.cfg.add(gtirb.Edge(tail, gtirb.ProxyBlock(module=m), gtirb.Edge.Label(gtirb.Edge.Type.Return)))
        s1 = gtirb.Symbol("f1", payload=e1, module=m)
        s2 = gtirb.Symbol("f2", payload=e2, module=m)
        fb, fe, fn = {}, {}, {}
        for u, ent, sym in ((u1, e1, s1), (u2, e2, s2)):  # same table order in both copies
            fb[u], fe[u], fn[u] = {ent, tail}, {ent}, sym
        m.aux_data["functionBlocks"] = gtirb.AuxData(fb, "mapping<UUID,set<UUID>>")
        m.aux_data["functionEntries"] = gtirb.AuxData(fe, "mapping<UUID,set<UUID>>")
        m.aux_data["functionNames"] = gtirb.AuxData(fn, "mapping<UUID,UUID>")
        funcs = sorted(gtirb_functions.Function.build_functions(m), key=lambda f: {u1: 0, u2: 1}[f.uuid])
        ctx = RewritingContext(m, funcs)
        blk, off = {"tail-mid": (tail, 1), "tail-start": (tail, 0), "entry2-mid": (e2, 1)}[where]
        ctx.insert_at(blk, off, Patch.from_function(gtirb_rewriting.patch_constraints()(lambda c: ".L_mark:\nnop\njmp .L_mark")))
        ctx.apply()
        names = {u1: "f1", u2: "f2"}
        out = {}
        for u, blocks in _auxdata.function_blocks.get(m).items():
            out[names[u]] = sorted((b.address, b.size) for b in blocks)
        ents = {names[u]: sorted(b.address for b in bs) for u, bs in _auxdata.function_entries.get(m).items()}
        return out, ents, sorted((b.address, b.size) for b in m.code_blocks)

    lo, hi = uuid.UUID(int=0x1111), uuid.UUID(int=0x9999)
    a = run_once(lo, hi)
    b = run_once(hi, lo)
    eng.check(a == b, "C11 the function tables depend on the UUID values of the functions: %r vs %r" % (a, b))
    allb = set(a[2])
    owned = {x for v in a[0].values() for x in v}
    eng.check(owned == allb, "C11/C06 a code block of the result belongs to no function: %r" % sorted(allb - owned))


def make_check_C11(tier):
    from harness import rewrite_shapes
    chk = run.Check("C11", tier)
    chk.install_shims = install
    chk.classify_exception = classify
    extra = []
    for mods in ([rewrite_shapes.ins("b0", 1, "jcc_tmp"), rewrite_shapes.ins("d0", 1, "jcc_tmp")],
                 [rewrite_shapes.ins("b0", 1, "jcc_tmp"), rewrite_shapes.ins("b2", 1, "selfloop")],
                 [rewrite_shapes.ins("b0", 0, "jcc_tmp"), rewrite_shapes.ins("b2", 0, "jcc_tmp"), rewrite_shapes.ins("d1", 0, "selfloop")]):
        import copy as _c
        spec = rewrite_shapes.mixed_layout()
        spec["mods"] = _c.deepcopy(mods)
        extra.append(("mixed/%s" % rewrite_shapes.mods_name(mods), spec))
    for mods in ([rewrite_shapes.ins("b0", 1, "jcc_tmp"), rewrite_shapes.ins("b1", 1, "jcc_tmp")],
                 [rewrite_shapes.ins("b0", 0, "selfloop"), rewrite_shapes.ins("b1", 0, "jcc_tmp"), rewrite_shapes.ins("b2", 0, "jcc_tmp")],
                 [rewrite_shapes.ins("b1", 1, "jcc_tmp"), rewrite_shapes.ins("b1", 2, "selfloop")]):
        import copy as _c
        spec = rewrite_shapes.text_layout("jcc:s0")
        spec["mods"] = _c.deepcopy(mods)
        extra.append(("text/jcc:s0/%s" % rewrite_shapes.mods_name(mods), spec))
    for sid, spec in rewrite_shapes.shapes(tier) + rewrite_shapes.cfi_shapes(tier) + extra:
        if crash_pattern(spec) or len(spec.get("mods", [])) < 2 or has_function_insertion(spec):
            continue
        for perm in legal_permutations(spec["mods"]):
            chk.add("%s/perm%s" % (sid, "".join(map(str, perm))), h_reorder, params=dict(spec=spec, perm=perm), timeout=900)
    # symbol retargets are modifications too: chains and independent pairs registered in either order (assertions of C18)
    from harness import retarget as RT
    for fmt, pie in (("elf", True), ("pe", False)):
        for a_int, b_int in ((True, True), (True, False), (False, True)):
            for request in ("chain", "two"):
                for rev in (False, True):
                    chk.add("retarget-order/%s/A%s-B%s/%s/%s" % (fmt, "int" if a_int else "ext", "int" if b_int else "ext", request,
                                                             "reversed" if rev else "forward"),
                            RT.h_retarget, params=dict(fmt=fmt, pie=pie, a_int=a_int, b_int=b_int, request=request, reverse=rev,
                                                            return_edges=False))
    for where in ("tail-mid", "tail-start", "entry2-mid"):
        chk.add("uuid-swap/shared-tail/%s" % where, h_uuid_swap, params=dict(where=where))
    # hash-seed / UUID clause: iteration order of hash-ordered collections as an explored choice (harness/order.py)
    from harness import order as OR
    pool = [(sid, spec) for sid, spec in rewrite_shapes.shapes(tier) + rewrite_shapes.cfi_shapes(tier) + extra
            if not crash_pattern(spec) and not sid.startswith(("syspairs/", "pe/syspairs/"))]
    stride = 5 if tier == "quick" else 1
    picked = [x for i, x in enumerate(pool) if i % stride == 0 or x[0].startswith(("newfunc/", "callgraph2/", "two-entries/"))]
    for sid, spec in picked:
        chk.add("order/%s" % sid, OR.h_order, params=dict(spec=spec), timeout=1800)
    # the returning blocks of one function have different resolved return targets (b3 returns to the first call site only,
    # b4 to the second): whatever a patch 'ret' inherits must not depend on the order in which the function's blocks are visited
    ins = rewrite_shapes.ins
    for mods in ([ins("b2", 1, "ret")], [ins("b3", 0, "ret")], [ins("b2", 0, "ret"), ins("b4", 1, "mov")]):
        spec = rewrite_shapes.callgraph_layout(True)
        spec["ret_override"] = {"b3": ["b1"], "b4": ["b1r"]}
        spec["mods"] = _c.deepcopy(mods)
        chk.add("order/split-returns/%s" % rewrite_shapes.mods_name(mods), OR.h_order, params=dict(spec=spec), timeout=1800)
    for abiname in ("x64-elf", "x64-pe", "ia32-pe", "arm64", "mips32"):
        cl = {"x64-elf": ["rax", "r11", "rbx"], "x64-pe": ["rax", "r11", "rbx"], "ia32-pe": ["eax", "ebx", "edx"],
              "arm64": ["x0", "x9", "x20"], "mips32": ["t0", "s1", "v0"]}[abiname]
        for preserve in (False, True):
            for nscratch in (0, 2):
                chk.add("order-abi/%s/preserve%d/scratch%d" % (abiname, preserve, nscratch), OR.h_order_abi,
                        params=dict(abiname=abiname, preserve=preserve, nscratch=nscratch, clobbers=cl,
                                    reads=[{"x64-elf": "rcx", "x64-pe": "rcx", "ia32-pe": "ecx", "arm64": "x1", "mips32": "t1"}[abiname]],
                                    flags=True, align=abiname != "mips32"))
    # repeated runs: a Patch object that is used again must not carry state from its earlier uses into the result
    from harness import abi_cpu as _AC
    for isa in ("x64", "ia32", "arm64"):
        chk.add("repeat/shared-patch/%s" % isa, _AC.h_shared_patch, params=dict(isa=isa), timeout=600)
    for isa, fmt in (("x64", "elf"), ("x64", "pe"), ("arm64", "elf"), ("ia32", "pe")):
        chk.add("order-callpatch/%s-%s" % (isa, fmt), OR.h_order_callpatch, params=dict(isa=isa, fmt=fmt))
    chk.bounds = dict(BOUNDS)
    chk.bounds["UUID values"] = ("only for the shared-tail layout: two copies of one module whose two function UUIDs are swapped in "
                                 "magnitude (same table order); everything else about UUID draws is outside the claim")
    chk.bounds["retarget requests"] = "A->B with B->C, and A->B with T->C, registered in both orders (x86-64 ELF PIE and PE)"
    chk.bounds["registration orders"] = "every permutation of the 2-3 requests that keeps the relative order of requests at the same location"
    chk.bounds["iteration orders"] = (
        "hash seeds and UUID draws reach the result only through the iteration order of hash-ordered collections; every site in "
        "gtirb_rewriting that iterates one (for/comprehension/starred/sorted/list/next/min/max..., found by an AST pass over the "
        "current source) is, one site at a time, presented reversed and (>= 3 elements) rotated by one; sites of a scenario are "
        "learnt from a tracked run; orders inside gtirb, gtirb_functions, gtirb_layout, mcasm, capstone and networkx are not varied")
    chk.assumptions = list(ASSUME) + [
        "hash-seed/UUID clause: one iteration site is perturbed per run (not combinations of sites); a dependence that needs two "
        "sites perturbed together, or an order other than reversed/rotated, is outside the bound",
        "temporary-label names are compared exactly (suffixes follow application order, not registration order)"]
    return chk
