"""Symbolic rewrite harness (SRH): builds a real gtirb module from a scenario
spec (symbolic sizes in the symbolic run, real bytes in the concrete replay),
registers modifications through the public RewritingContext API, runs the real
apply(), flattens the resulting IR to section-listing positions and compares it
with the listing model in oracle/listing.py.

Spec (plain dict, concrete *shape*; all lengths/addresses are engine ints):
  isa: "x64"; fmt: "elf"|"pe"
  sections: [{name, exec, blocks: [{id, kind: code|data, atoms: [kind...],
              syms: [...], esyms: [...], func: name|None, entry: bool,
              align: None|int, gap: bool}]}]
  ext: [names of proxy-backed symbols]
  annots: [{blk, atom, kind: symexpr|comment|padding|sesize, keyed: block|interval, at: delta|boundary}]
  cfi: [{blk, at: atom boundary index, dirs: [(name, operands)]}]
  mods: [{op: insert|delete|replace, blk, at, to, patch, proxy}]
Atom kinds: o, d, ret, ijmp, icall, jmp:L, jcc:L, call:L  (L = symbol name).
"""
import uuid as _uuid

import gtirb

from oracle import listing as L
from symx import core
from symx.core import And, Rope, SymInt

FT = gtirb.Edge.Type


def _lbl(t, cond=False, direct=True):
    return gtirb.Edge.Label(type=t, conditional=cond, direct=direct)


# ---------------------------------------------------------------------------
# concrete instruction bytes for atoms (real x86-64 encodings of a given length)
# ---------------------------------------------------------------------------
def ordinary_bytes(n, ident):
    i = ident & 0x7F
    if n == 1:
        return bytes([0x50 + (i % 8)])
    if n == 2:
        return bytes([0xB0, i])
    if n == 3:
        return bytes([0x83, 0xC0, i])
    if n == 4:
        return bytes([0x3E, 0x83, 0xC0, i])
    return bytes([0x3E] * (n - 5) + [0xB8, i, 0x11, 0x22, 0x33])


TERMINATOR_LENGTHS = {
    "jmp": (2, 5), "jcc": (2, 6), "call": (5,), "ret": (1, 3), "ijmp": (2, 3, 6, 7), "icall": (2, 3, 6, 7),
    "sys": (2,),
    "rcall": (2, 3),
}
TERMINATOR_BYTES = {
    ("jmp", 2): b"\xeb\x00", ("jmp", 5): b"\xe9\x00\x00\x00\x00",
    ("jcc", 2): b"\x74\x00", ("jcc", 6): b"\x0f\x84\x00\x00\x00\x00",
    ("call", 5): b"\xe8\x00\x00\x00\x00",
    ("ret", 1): b"\xc3", ("ret", 3): b"\xc2\x08\x00",
    ("ijmp", 2): b"\xff\xe0", ("ijmp", 3): b"\xff\x60\x08", ("ijmp", 6): b"\xff\xa0\x00\x00\x00\x00",
    ("ijmp", 7): b"\xff\x24\x25\x00\x00\x00\x00",
    ("icall", 2): b"\xff\xd0", ("icall", 3): b"\xff\x50\x08", ("icall", 6): b"\xff\x90\x00\x00\x00\x00",
    ("icall", 7): b"\xff\x14\x25\x00\x00\x00\x00",
    ("sys", 2): b"\x0f\x05",
    ("rcall", 2): b"\xff\xd0", ("rcall", 3): b"\xff\x50\x08",
}


def _le32(v):
    return bytes([v & 0xFF, (v >> 8) & 0xFF, (v >> 16) & 0xFF, (v >> 24) & 0xFF])


ARM64_BYTES = {
    "jmp": _le32(0x14000000), "jcc": _le32(0x54000001), "call": _le32(0x94000000), "ret": _le32(0xD65F03C0),
    "ijmp": _le32(0xD61F0020), "icall": _le32(0xD63F0020), "sys": _le32(0xD4000001),
    "rcall": _le32(0xD63F0020),
}


def arm64_ordinary(ident):
    return _le32(0x91000000 | ((ident & 0xFFF) << 10))  # add x0, x0, #ident


class Atom:
    def __init__(self, ident, kind, target, length, blk, idx, code):
        self.id = ident
        self.kind = kind
        self.target = target
        self.length = length
        self.blk = blk
        self.idx = idx
        self.code = code
        self.src = "a%d" % ident
        self.annots = []  # (delta, table, value, keyed)

    def rope(self):
        return Rope.src(self.src, self.length)


def spec_isa(sc):
    return sc.spec.get("isa", "x64")


class Scenario:
    def __init__(self, eng, spec):
        self.eng = eng
        self.spec = spec
        self.sym = eng.sym
        self.sources = {}
        self.atoms = {}  # bid -> [Atom]
        self.blocks = {}  # bid -> gtirb block
        self.bspec = {}
        self.symbols = {}
        self.gaps = {}  # bid -> (src, length) gap bytes before the block
        self.uninit = {}  # section name -> length of the uninitialised tail
        self.patch_log = []  # (mod index, assembled bytes) in invocation order
        self.mod_patches = {}
        self._build()

    # ---- construction ------------------------------------------------------
    def _atom_len(self, ident, kind, code):
        e = self.eng
        name = "len%d" % ident
        if not code:
            return e.int(name, 1, None)
        if self.spec.get("isa") == "arm64":
            return 4  # fixed-width ISA: every instruction is four bytes
        if kind == "o":
            return e.int(name, 1, 15)
        opts = TERMINATOR_LENGTHS[kind]
        v = e.int(name, min(opts), max(opts))
        e.assume(core.Or(*[v == o for o in opts]))
        return v

    def _build(self):
        import gtirb_functions
        from gtirb_rewriting import _auxdata, _auxdata_offsetmap

        e = self.eng
        spec = self.spec
        isa = {"x64": gtirb.Module.ISA.X64, "arm64": gtirb.Module.ISA.ARM64}[spec.get("isa", "x64")]
        fmt = {"elf": gtirb.Module.FileFormat.ELF, "pe": gtirb.Module.FileFormat.PE}[spec.get("fmt", "elf")]
        self.ir = gtirb.IR()
        self.module = m = gtirb.Module(name="m", isa=isa, file_format=fmt, ir=self.ir,
                                        byte_order=gtirb.Module.ByteOrder.Little)
        _auxdata.binary_type.set(m, ["DYN"] if spec.get("pie", True) else ["EXEC"])
        ident = 0
        addr = e.int("A", 64, None)
        if spec.get("aligned_base", True):
            base_q = e.int("Aq", 1, None)
            e.assume(addr == base_q * 64)
        # raw data patches of symbolic length: created first so that the distance between
        # sections can exceed every possible growth (a re-layout by gtirb_layout is outside the claim)
        self.raw_len = {}
        growth = 0
        for mi, md in enumerate(spec.get("mods", [])):
            if md.get("patch") == "rawbytes":
                self.raw_len[mi] = e.int("raw%d" % md.get("uid", mi), 1, None)
                growth = growth + self.raw_len[mi]
        self.sections = []
        self.intervals = {}
        align_tbl = None
        for si, ss in enumerate(spec["sections"]):
            flags = {gtirb.Section.Flag.Readable, gtirb.Section.Flag.Loaded, gtirb.Section.Flag.Initialized}
            if ss.get("exec"):
                flags.add(gtirb.Section.Flag.Executable)
            else:
                flags.add(gtirb.Section.Flag.Writable)
            sect = gtirb.Section(name=ss["name"], module=m, flags=flags)
            self.sections.append(sect)
            bi = gtirb.ByteInterval(contents=b"", section=sect, address=addr)
            self.intervals[ss["name"]] = bi
            contents = Rope() if self.sym else b""
            off = 0
            for bs in ss["blocks"]:
                bid = bs["id"]
                self.bspec[bid] = bs
                code = bs["kind"] == "code"
                if bs.get("gap"):
                    glen = e.int("gap_" + bid, 0, None)
                    gsrc = "g_" + bid
                    self.gaps[bid] = (gsrc, glen)
                    if self.sym:
                        contents = contents + Rope.src(gsrc, glen)
                    else:
                        self.sources[gsrc] = bytes([0xCC] * glen)
                        contents += self.sources[gsrc]
                    off = off + glen
                atoms = []
                size = 0
                for j, ak in enumerate(bs["atoms"]):
                    kind, _, target = ak.partition(":")
                    ln = self._atom_len(ident, kind, code)
                    a = Atom(ident, kind, target or None, ln, bid, j, code)
                    if self.sym:
                        contents = contents + a.rope()
                    else:
                        if not code:
                            data = bytes([(0x40 + ident * 7 + k) & 0xFF for k in range(ln)])
                        elif spec.get("isa") == "arm64":
                            data = arm64_ordinary(ident) if kind == "o" else ARM64_BYTES[kind]
                        elif kind == "o":
                            data = ordinary_bytes(ln, ident)
                        else:
                            data = TERMINATOR_BYTES[(kind, ln)]
                        self.sources[a.src] = data
                        contents += data
                    atoms.append(a)
                    size = size + ln
                    ident += 1
                self.atoms[bid] = atoms
                cls = gtirb.CodeBlock if code else gtirb.DataBlock
                blk = cls(offset=off, size=size)
                blk.byte_interval = bi
                self.blocks[bid] = blk
                off = off + size
                for s in bs.get("syms", []):
                    self.symbols[s] = gtirb.Symbol(s, payload=blk, module=m)
                for s in bs.get("esyms", []):
                    self.symbols[s] = gtirb.Symbol(s, payload=blk, at_end=True, module=m)
                if bs.get("align"):
                    align_tbl = _auxdata.alignment.get_or_insert(m)
                    align_tbl[blk] = bs["align"]
            tail = None
            if ss.get("tail_gap"):
                tlen = e.int("tail_" + ss["name"], 0, None)
                tail = ("t_" + ss["name"], tlen)
                self.gaps["tail:" + ss["name"]] = tail
                if self.sym:
                    contents = contents + Rope.src(tail[0], tlen)
                else:
                    self.sources[tail[0]] = bytes([0xCD] * tlen)
                    contents += self.sources[tail[0]]
                off = off + tlen
            if self.sym:
                bi.size = off
                bi.contents = contents
            else:
                bi.contents = contents
                bi.size = off
            if ss.get("uninit_tail"):
                # zero-fill bytes behind the stored contents (size > len(contents)): part of the section, not of the listing
                ulen = e.int("uninit_" + ss["name"], 1, None)
                self.uninit[ss["name"]] = ulen
                bi.size = off + ulen
                off = off + ulen
            addr = addr + off + growth + e.int("secgap%d" % si, 4096, None)
        if spec.get("alignment_table") and align_tbl is None:
            _auxdata.alignment.get_or_insert(m)
        for name in spec.get("ext", []):
            p = gtirb.ProxyBlock(module=m)
            self.symbols[name] = gtirb.Symbol(name, payload=p, module=m)
        # ---- symbolic expressions of direct transfers + annotations -----------
        sizes_tbl = None
        for bid, atoms in self.atoms.items():
            blk = self.blocks[bid]
            bi = blk.byte_interval
            boff = 0
            for a in atoms:
                if a.kind == "rcall":
                    pass  # a register/memory operand: no symbolic expression
                elif a.target is not None and spec.get("isa") == "arm64":
                    # the operand of a fixed-width instruction is recorded at the instruction's first byte
                    expr = gtirb.SymAddrConst(0, self.symbols[a.target])
                    bi.symbolic_expressions[blk.offset + boff] = expr
                    a.annots.append((0, "symexpr", expr, None))
                elif a.target is not None:
                    width = 1 if (a.kind in ("jmp", "jcc") and not self.sym and a.length == 2) else 4
                    if self.sym:
                        delta = a.length - core.Ite(And(a.length == 2), 1, 4)
                    else:
                        delta = a.length - width
                    expr = gtirb.SymAddrConst(0, self.symbols[a.target])
                    bi.symbolic_expressions[blk.offset + boff + delta] = expr
                    a.annots.append((delta, "symexpr", expr, None))
                boff = boff + a.length
        for i, an in enumerate(spec.get("annots", [])):
            bid = an["blk"]
            a = self.atoms[bid][an["atom"]]
            blk = self.blocks[bid]
            bi = blk.byte_interval
            start = 0
            for prev in self.atoms[bid][: an["atom"]]:
                start = start + prev.length
            if an.get("at") == "start":
                delta = 0
            else:
                delta = e.int("ad%d" % i, 0, None)
                e.assume(delta < a.length)
            kind = an["kind"]
            if kind == "symexpr":
                # keep clear of the transfer operand's own expression
                for (d0, k0, _, _) in a.annots:
                    if k0 == "symexpr":
                        e.assume(delta != d0)
                expr = gtirb.SymAddrConst(e.int("addend%d" % i), self.symbols[an["sym"]])
                bi.symbolic_expressions[blk.offset + start + delta] = expr
                a.annots.append((delta, "symexpr", expr, None))
                if an.get("size"):
                    tbl = _auxdata_offsetmap.symbolic_expression_sizes.get_or_insert(m)
                    tbl[gtirb.Offset(bi, blk.offset + start + delta)] = an["size"]
                    a.annots.append((delta, "symbolicExpressionSizes", an["size"], "interval"))
            else:
                tdef = {"comment": _auxdata_offsetmap.comments, "padding": _auxdata_offsetmap.padding,
                        "sesize": _auxdata_offsetmap.symbolic_expression_sizes}[kind]
                tname = {"comment": "comments", "padding": "padding", "sesize": "symbolicExpressionSizes"}[kind]
                tbl = tdef.get_or_insert(m)
                value = "c%d" % i if kind == "comment" else 4 + i
                if an.get("keyed", "block") == "block":
                    tbl[gtirb.Offset(blk, start + delta)] = value
                else:
                    tbl[gtirb.Offset(bi, blk.offset + start + delta)] = value
                a.annots.append((delta, tname, value, an.get("keyed", "block")))
        # ---- functions ----------------------------------------------------------
        funcs = {}
        for bid, bs in self.bspec.items():
            if bs.get("func"):
                funcs.setdefault(bs["func"], []).append(bid)
        self.func_uuids = {}
        if funcs or spec.get("function_tables"):
            fb = _auxdata.function_blocks.get_or_insert(m)
            fe = _auxdata.function_entries.get_or_insert(m)
            fn = _auxdata.function_names.get_or_insert(m)
            for fname, bids in funcs.items():
                u = _uuid.uuid4()
                self.func_uuids[fname] = u
                fb[u] = {self.blocks[b] for b in bids}
                entries = [b for b in bids if self.bspec[b].get("entry")] or bids[:1]
                fe[u] = {self.blocks[b] for b in entries}
                ename = (self.bspec[entries[0]].get("syms") or [None])[0]
                if ename is None:
                    ename = "fn_" + fname
                    self.symbols[ename] = gtirb.Symbol(ename, payload=self.blocks[entries[0]], module=m)
                    self.bspec[entries[0]].setdefault("syms", []).insert(0, ename)
                fn[u] = self.symbols[ename]
        # ---- input CFG from the listing model's own control-flow rule ------------
        self.model = L.Listing.from_scenario(self)
        cfg = self.ir.cfg
        self.ret_proxies = []
        for (src_bid, kind, dst, cond, direct) in self.model.block_edges():
            if kind == "return" and src_bid in spec.get("ret_override", {}) and dst not in spec["ret_override"][src_bid]:
                continue  # a path-sensitive recovery: this ret is known to return to some of the call sites only
            s = self.blocks[src_bid]
            if dst is None and kind == "return" and spec.get("shared_ret_proxy"):
                # one "unknown callers" proxy shared by every function that returns to unknown places
                if not self.ret_proxies:
                    self.ret_proxies.append(gtirb.ProxyBlock(module=m))
                t = self.ret_proxies[0]
            elif dst is None:
                t = gtirb.ProxyBlock(module=m)
            elif dst.startswith("ext:"):
                t = self.symbols[dst[4:]].referent
            else:
                t = self.blocks[dst]
            typ = {"fallthrough": FT.Fallthrough, "branch": FT.Branch, "call": FT.Call, "return": FT.Return,
                   "syscall": FT.Syscall}[kind]
            if spec.get("unlabelled_ijmp") and kind == "branch" and dst is None:
                cfg.add(gtirb.Edge(s, t, None))  # an unresolved indirect jump recorded without a label
            else:
                cfg.add(gtirb.Edge(s, t, _lbl(typ, cond, direct)))
        if spec.get("entry_point"):
            m.entry_point = self.blocks[spec["entry_point"]]
        # module-level designators of a code block besides the entry point
        if spec.get("elf_init"):
            _auxdata.elf_dynamic_init.set(m, self.blocks[spec["elf_init"]])
        if spec.get("elf_fini"):
            _auxdata.elf_dynamic_fini.set(m, self.blocks[spec["elf_fini"]])
        # ---- cfi directives ------------------------------------------------------
        if spec.get("cfi"):
            tbl = _auxdata_offsetmap.cfi_directives.get_or_insert(m)
            null = _uuid.UUID(int=0)
            for c in spec["cfi"]:
                blk = self.blocks[c["blk"]]
                disp = 0
                for prev in self.atoms[c["blk"]][: c["at"]]:
                    disp = disp + prev.length
                dirs = []
                for d in c["dirs"]:
                    symref = self.symbols[d[2]] if len(d) > 2 and d[2] else null
                    dirs.append((d[0], list(d[1]), symref))
                tbl.setdefault(blk, {})
                tbl[blk][disp] = dirs
        # ---- block-keyed tables (one value per block; they describe the block as a whole) ----------------
        if spec.get("blockaux"):
            for n, (bid, blk) in enumerate(self.blocks.items()):
                if isinstance(blk, gtirb.CodeBlock):
                    _auxdata.sccs.get_or_insert(m)[blk] = n
                    _auxdata.profile.get_or_insert(m)[blk] = 100 + n
                else:
                    _auxdata.types.get_or_insert(m)[blk] = "t%d" % n
                    _auxdata.encodings.get_or_insert(m)[blk] = "string"
        self.functions = gtirb_functions.Function.build_functions(m) if self.func_uuids else []
        self.orig_block_pos = {}
        for sect in self.sections:
            pos = 0
            for bi in self.section_intervals(sect):
                for blk in bi.blocks:
                    bid = next(k for k, v in self.blocks.items() if v is blk)
                    self.orig_block_pos[bid] = pos + blk.offset
                pos = pos + bi.size

    # ---- modifications ---------------------------------------------------------
    def boundary(self, bid, j):
        off = 0
        for a in self.atoms[bid][:j]:
            off = off + a.length
        return off

    def make_patch(self, mi, name):
        """Patch object for a vocabulary entry; asm text is unique per modification."""
        import gtirb_rewriting
        from gtirb_rewriting import Patch

        k = 0x1000 + mi
        texts = {
            "mov": "mov eax, %d" % k,
            "two": "mov eax, %d\nmov ebx, %d" % (k, k),
            "label": "mov eax, %d\npl_%d:\nmov ebx, %d" % (k, mi, k),
            "jcc_tmp": "test eax, eax\njne .Lskip\nmov eax, %d\n.Lskip:\nnop" % k,
            "ret": "mov eax, %d\nret" % k,
            "icall": "mov eax, %d\ncall rax" % k,
            "byte": ".byte %d\n.byte %d" % (k & 0xFF, (k >> 4) & 0xFF),
            "quad": ".quad 0x%x" % (0x1122334455000000 + k),
            "selfloop": ".Lx:\nmov eax, %d\njne .Lx" % k,
            "align16": "mov eax, %d\n.align 16\nmov ebx, %d" % (k, k),
            "func_body": "test eax, eax\nje .Lz\nmov eax, %d\n.Lz:\nret" % k,
            "func_simple": "mov eax, %d\nret" % k,
            "decline": "<decline>",
            "trail_label": "mov eax, %d\ntl_%d:" % (k, mi),
            "trail_label_data": ".byte %d\ntl_%d:" % (k & 0xFF, mi),
            "lead_align4": ".align 4\npl_%d:\nmov eax, %d" % (mi, k),
            "lead_align16": ".align 16\npl_%d:\nmov eax, %d" % (mi, k),
            "string": '.string "h%d"' % (mi % 10),
            "alias_data": "jmp .Lskip\nt1_%d:\nt2_%d:\n.byte %d\n.Lskip:\nmov eax, %d" % (mi, mi, k & 0xFF, k),
        }
        if spec_isa(self) == "arm64":
            a64 = {
                "mov": "mov x9, #%d" % k,
                "two": "mov x9, #%d\nmov x10, #%d" % (k, k),
                "label": "mov x9, #%d\npl_%d:\nmov x10, #%d" % (k, mi, k),
                "jcc_tmp": "cmp x9, #0\nb.ne .Lskip\nmov x9, #%d\n.Lskip:\nnop" % k,
                "ret": "mov x9, #%d\nret" % k,
                "icall": "mov x9, #%d\nblr x9" % k,
                "selfloop": ".Lx:\nmov x9, #%d\nb.ne .Lx" % k,
                "trail_label": "mov x9, #%d\ntl_%d:" % (k, mi),
            }
            for shared in ("byte", "quad", "decline", "trail_label_data", "string"):
                a64[shared] = texts[shared]
            if name.startswith("jmp:"):
                text = "mov x9, #%d\nb %s" % (k, name[4:])
            elif name.startswith("call:"):
                text = "mov x9, #%d\nbl %s\nmov x10, #%d" % (k, name[5:], k)
            elif name.startswith("dq:"):
                text = ".quad %s+4\n.byte %d" % (name[3:], k & 0xFF)
            else:
                text = a64[name]
        elif name.startswith("twocalls:"):
            text = "mov eax, %d\ncall %s\nmov ebx, %d\ncall %s\nmov ecx, %d" % (k, name[9:], k, name[9:], k)
        elif name.startswith("jmp:"):
            text = "mov eax, %d\njmp %s" % (k, name[4:])
        elif name.startswith("call:"):
            text = "mov eax, %d\ncall %s\nmov ebx, %d" % (k, name[5:], k)
        elif name.startswith("lea:"):
            text = "lea rax, [rip+%s]\nmov ebx, %d" % (name[4:], k)
        elif name.startswith("ripimm:"):
            text = "mov dword ptr [rip+%s], %d" % (name[7:], k)
        elif name.startswith("ripimm4:"):
            text = "cmp byte ptr [rip+%s+4], %d" % (name[8:], k & 0x7F)
        elif name.startswith("dq:"):
            text = ".quad %s+4\n.byte %d" % (name[3:], k & 0xFF)
        elif name.startswith("cfiraw:"):
            text = name[7:].replace(";", "\n")
        elif name.startswith("cfi:"):
            text = "mov eax, %d\n%s\nmov ebx, %d" % (k, name[4:].replace(";", "\n"), k)
        else:
            text = texts[name]

        @gtirb_rewriting.patch_constraints(x86_syntax=gtirb_rewriting.X86Syntax.INTEL)
        def fn(ctx, _text=text, _mi=mi):
            self.contexts.append((_mi, ctx))
            self.invocations += 1
            if _text == "<decline>":
                return None  # "no insertion takes place"
            if self.fault_at is not None and self.invocations == self.fault_at:
                from harness.rewrite import InjectedFault
                self.fault_snapshot = set(self.ir.cfg)
                raise InjectedFault("injected into patch callback %d" % self.invocations)
            return _text

        p = Patch.from_function(fn)
        p._symx_text = text
        return p

    def begin_registration(self, ctx):
        """Adopt a RewritingContext created by someone else (PassManager) and hook patch recording."""
        import gtirb_rewriting.rewriting as RW
        self.contexts = getattr(self, "contexts", [])
        self.invocations = 0
        self.fault_at = getattr(self, "fault_at", None)
        self.fault_snapshot = None
        self.original_cfg = self.ir.cfg
        self.ctx = ctx
        self.data_patch = {}
        orig = RW.RewritingContext._invoke_patch
        scen = self

        def recording(self_, patch, actual_block, actual_offset, context, **kw):
            res = orig(self_, patch, actual_block, actual_offset, context, **kw)
            if res is not None:
                scen.patch_log.append((patch, res))
            return res

        ctx._invoke_patch = recording.__get__(ctx)

    def register_one(self, ctx, mi, md):
        if md["op"] == "scope":
            self._register_scope(ctx, mi, md)
            return
        if md["op"] == "insert_function":
            p = self.make_patch(md.get("uid", mi), md["patch"])
            self.mod_patches[mi] = p
            self.symbols[md["name"]] = ctx.register_insert_function(md["name"], p)
            return
        blk = self.blocks[md["blk"]]
        at = self.boundary(md["blk"], md["at"])
        if md["op"] == "insert":
            ctx.insert_at(blk, at, self._patch_arg(mi, md))
        else:
            raise KeyError(md["op"])

    def register(self, only=None, located=None):
        """Create the RewritingContext and register every modification (or only modification `only`)."""
        import gtirb_rewriting.rewriting as RW
        from gtirb_rewriting import RewritingContext

        self.contexts = getattr(self, "contexts", [])
        self.invocations = 0
        self.fault_at = getattr(self, "fault_at", None)
        self.fault_snapshot = None
        self.original_cfg = self.ir.cfg
        self.ctx = ctx = RewritingContext(self.module, self.functions, expensive_assertions=not self.sym)
        self.data_patch = {}
        for mi, md in enumerate(self.spec.get("mods", [])):
            if md is None or (only is not None and mi != only):
                continue
            if md["op"] == "scope":
                self._register_scope(ctx, mi, md)
                continue
            if md["op"] == "insert_function":
                p = self.make_patch(md.get("uid", mi), md["patch"])
                self.mod_patches[mi] = p
                self.symbols[md["name"]] = ctx.register_insert_function(md["name"], p)
                continue
            if located is not None:
                blk, at, ln = located
            else:
                blk = self.blocks[md["blk"]]
                at = self.boundary(md["blk"], md["at"])
                ln = (self.boundary(md["blk"], md["to"]) - at) if "to" in md else 0
            if md["op"] == "insert":
                p = self._patch_arg(mi, md)
                ctx.insert_at(blk, at, p)
            elif md["op"] == "delete":
                ctx.delete_at(blk, at, ln, retarget_to_proxy=bool(md.get("proxy")))
            elif md["op"] == "replace":
                p = self._patch_arg(mi, md)
                ctx.replace_at(blk, at, ln, p)
            else:
                raise KeyError(md["op"])
        # record assembled patch bytes per modification (oracle input for C01)
        orig = RW.RewritingContext._invoke_patch
        scen = self

        def recording(self_, patch, actual_block, actual_offset, context, **kw):
            res = orig(self_, patch, actual_block, actual_offset, context, **kw)
            if res is not None:
                scen.patch_log.append((patch, res))
            return res

        ctx._invoke_patch = recording.__get__(ctx)

    def _register_scope(self, ctx, mi, md):
        import re
        from gtirb_rewriting import (ENTRYPOINT_NAME, MAIN_NAME, AllBlocksScope, AllFunctionsScope, BlockPosition,
                                     FunctionPosition, SingleBlockScope)

        def names(lst):
            if lst is None:
                return None
            out = set()
            for n in lst:
                if n == "<main>":
                    out.add(MAIN_NAME)
                elif n == "<entry>":
                    out.add(ENTRYPOINT_NAME)
                elif n.startswith("re:"):
                    out.add(re.compile(n[3:]))
                else:
                    out.add(n)
            return out

        pos = BlockPosition[md["pos"]]
        if md["kind"] == "all_blocks":
            scope = AllBlocksScope(pos, names(md.get("exclude")))
        elif md["kind"] == "all_functions":
            scope = AllFunctionsScope(FunctionPosition[md["fpos"]], pos, names(md.get("functions")))
        else:
            scope = SingleBlockScope(self.blocks[md["blk"]], pos)
        p = self.make_patch(md.get("uid", mi), md["patch"])
        self.mod_patches[mi] = p
        ctx.register_insert(scope, p)

    def _patch_arg(self, mi, md):
        if md["patch"] == "rawbytes":
            n = self.raw_len[mi]
            src = "raw%d" % md.get("uid", mi)
            if self.sym:
                p = Rope.src(src, n)
            else:
                self.sources[src] = bytes([(0xA0 + md.get("uid", mi) + k) & 0xFF for k in range(n)])
                p = self.sources[src]
            self.data_patch[mi] = (src, n)
            self.mod_patches[mi] = p
            return p
        p = self.make_patch(md.get("uid", mi), md["patch"])
        self.mod_patches[mi] = p
        return p

    def apply(self):
        self.ctx.apply()

    # ---- flattening ------------------------------------------------------------
    def section_intervals(self, sect):
        """Intervals in listing order: the original ones by address, then intervals created by the rewrite (their place
        relative to independent intervals is a layout decision outside the properties)."""
        orig = set(map(id, self.intervals.values()))
        old = sorted([b for b in sect.byte_intervals if id(b) in orig], key=lambda b: b.address)
        new = sorted([b for b in sect.byte_intervals if id(b) not in orig], key=lambda b: b.address)
        if len(new) > 1:
            # several inserted functions: listed in registration order, wherever gtirb_layout put each of them
            rank = {}
            for n, md in enumerate(m for m in self.spec.get("mods", []) if m["op"] == "insert_function"):
                for sym in self.module.symbols_named(md["name"]):
                    blk = sym.referent
                    if isinstance(blk, gtirb.ByteBlock) and blk.byte_interval is not None:
                        rank[id(blk.byte_interval)] = n
            new.sort(key=lambda b: (rank.get(id(b), len(rank)), b.address))
        return old + new

    def flatten_bytes(self, sect):
        """-> (rope or bytes of the whole section in address order, {interval: base position})"""
        total = Rope() if self.sym else b""
        bases = {}
        pos = 0
        for bi in self.section_intervals(sect):
            bases[bi] = pos
            c = bi.contents
            if self.sym:
                total = total + (c if isinstance(c, Rope) else Rope.lit(bytes(c)))
            else:
                total += bytes(c)
            # uninitialised tail bytes are not part of the listing
            pos = pos + bi.size
        return total, bases

    def block_pos(self, blk, bases):
        return bases[blk.byte_interval] + blk.offset
