"""C17: CallPatch follows the calling convention and is stack-neutral.

Real code: patches/calls.py (CallPatch, _CallPatchX86.get_asm,
_CallPatchARM64.{get_asm,_load_immediate,_load_symbol}, _create_passed_args),
utils.align_address.  get_asm runs under the engine with the prologue's
stack_adjustment, every integer argument (through a callable, so that the
context hand-over is checked too) and custom-convention parameters as z3
integers.  The emitted text carries placeholder tokens for symbolic numbers; a
small text front-end turns it into instructions for a symbolic CPU.  In the
concrete replays the same text is also assembled with the real assembler and
decoded with capstone, and the immediates must agree (translation validation).
"""
import re

import gtirb
import z3

from symx import core, run, shims
from symx.core import And, Ite, Not, Or, SymInt

M64 = 2 ** 64
TOKENS = {}


def _reset_tokens():
    TOKENS.clear()


def _tok(value, base):
    t = "@T%d%s@" % (len(TOKENS), base)
    TOKENS[t] = value
    return t


def _sym_format(self, spec=""):
    """str()/format() of a symbolic integer: a placeholder token; the sign is decided by a path split, as CPython
    prints '-' followed by the magnitude."""
    if spec in ("", "d"):
        if bool(self < 0):
            return "-" + _tok(-self, "d")
        return _tok(self, "d")
    if spec == "x":
        if bool(self < 0):
            return "-" + _tok(-self, "x")
        return _tok(self, "x")
    if spec == "#x":
        if bool(self < 0):
            return "-0x" + _tok(-self, "x")
        return "0x" + _tok(self, "x")
    raise core.Unsupported("format spec %r on a symbolic integer" % spec)


def install():
    import gtirb_rewriting.patches.calls as CALLS
    SymInt.__format__ = _sym_format
    SymInt.__str__ = lambda self: _sym_format(self, "")
    real_isinstance = isinstance

    def s_isinstance(obj, cls):
        if cls is int and real_isinstance(obj, SymInt):
            return True
        return real_isinstance(obj, cls)

    CALLS.isinstance = s_isinstance
    if _reset_tokens not in core.PATH_START_HOOKS:
        core.PATH_START_HOOKS.append(_reset_tokens)
    out = shims.install_determinism()
    out["patches/calls.py"] = ["isinstance (SymInt counts as int)"]
    return out


# ---------------------------------------------------------------------------
# text front-end
# ---------------------------------------------------------------------------
class Reject(Exception):
    pass


def parse_number(text):
    """decimal / 0x-hex literal, possibly containing one placeholder token -> engine integer"""
    t = text.strip()
    neg = False
    if t.startswith("-"):
        neg = True
        t = t[1:]
    m = re.fullmatch(r"(0x)?(@T\d+[dx]@)", t)
    if m:
        base_hex = m.group(1) == "0x"
        tok = m.group(2)
        if (tok[-2] == "x") != base_hex:
            raise Reject("radix of token does not match literal: %r" % text)
        v = TOKENS[tok]
        return -v if neg else v
    if re.fullmatch(r"0x[0-9a-fA-F]+", t):
        v = int(t, 16)
    elif re.fullmatch(r"[0-9]+", t):
        v = int(t)
    else:
        raise Reject("not a number: %r" % text)
    return -v if neg else v


X86_REGS = {"rax", "rbx", "rcx", "rdx", "rsi", "rdi", "rbp", "rsp", "r8", "r9", "r10", "r11", "r12", "r13", "r14", "r15",
            "eax", "ecx", "edx", "esp"}


def parse_x86(line, syms, ptr):
    line = line.strip()
    m = re.fullmatch(r"(sub|add) (\w+), (.+)", line)
    if m:
        return (m.group(1), m.group(2).lower(), parse_number(m.group(3)))
    m = re.fullmatch(r"mov (\w+), (.+)", line)
    if m:
        return ("mov", m.group(1).lower(), parse_operand_x86(m.group(2), syms))
    m = re.fullmatch(r"push (.+)", line)
    if m:
        return ("push", parse_operand_x86(m.group(1), syms))
    m = re.fullmatch(r"call (\w+)", line)
    if m:
        return ("call", m.group(1))
    raise Reject("unrecognised line: %r" % line)


def parse_operand_x86(text, syms):
    t = text.strip()
    m = re.fullmatch(r"(\w+)\[rip\]", t)
    if m and m.group(1) in syms:
        return ("mem_at_symbol", m.group(1))  # Intel syntax: the CONTENTS of the symbol's location
    if t in syms:
        return ("symbol_operand", t)  # bare symbol in Intel syntax: also a memory reference for mov, an address for push imm
    return ("imm", parse_number(t))


def parse_arm64(line, syms):
    line = line.strip()
    m = re.fullmatch(r"(sub|add) sp, sp, #(.+)", line)
    if m:
        return (m.group(1) + "_sp", parse_number(m.group(2)))
    m = re.fullmatch(r"mov (\w+), #(.+)", line)
    if m:
        return ("mov", m.group(1), parse_number(m.group(2)))
    m = re.fullmatch(r"movz (\w+), #(.+)", line)
    if m:
        return ("movz", m.group(1), parse_number(m.group(2)))
    m = re.fullmatch(r"movk (\w+), #(.+), lsl #(\d+)", line)
    if m:
        return ("movk", m.group(1), parse_number(m.group(2)), int(m.group(3)))
    m = re.fullmatch(r"adrp (\w+), (\w+)", line)
    if m:
        return ("adrp", m.group(1), m.group(2))
    m = re.fullmatch(r"add (\w+), (\w+), #:lo12:(\w+)", line)
    if m:
        return ("addlo12", m.group(1), m.group(2), m.group(3))
    m = re.fullmatch(r"str (\w+), \[sp, #(.+)\]", line)
    if m:
        return ("str", m.group(1), parse_number(m.group(2)))
    m = re.fullmatch(r"bl (\w+)", line)
    if m:
        return ("bl", m.group(1))
    raise Reject("unrecognised line: %r" % line)


# ---------------------------------------------------------------------------
# the harness
# ---------------------------------------------------------------------------
def _module(isa, fmt):
    ir = gtirb.IR()
    m = gtirb.Module(name="m", isa=isa, file_format=fmt, ir=ir, byte_order=gtirb.Module.ByteOrder.Little)
    s = gtirb.Section(name=".text", module=m, flags={gtirb.Section.Flag.Executable, gtirb.Section.Flag.Readable,
                                                     gtirb.Section.Flag.Loaded, gtirb.Section.Flag.Initialized})
    bi = gtirb.ByteInterval(contents=b"\x90" * 8, address=0x1000, section=s)
    b = gtirb.CodeBlock(offset=0, size=8, byte_interval=bi)
    callee = gtirb.Symbol("callee", payload=gtirb.ProxyBlock(module=m), module=m)
    datasym = gtirb.Symbol("obj", payload=b, module=m)
    return ir, m, b, callee, datasym


def h_call_reuse(eng, target):
    """One CallPatch object applied at two places (what a scope does): the argument callables are consulted for each
    insertion with that insertion's context, and each text carries that insertion's values."""
    from gtirb_rewriting import InsertionContext
    from gtirb_rewriting.patches import CallPatch

    isa, fmt = {"x64-elf": (gtirb.Module.ISA.X64, gtirb.Module.FileFormat.ELF),
                "x64-pe": (gtirb.Module.ISA.X64, gtirb.Module.FileFormat.PE),
                "ia32-pe": (gtirb.Module.ISA.IA32, gtirb.Module.FileFormat.PE),
                "arm64": (gtirb.Module.ISA.ARM64, gtirb.Module.FileFormat.ELF)}[target]
    ir, m, blk, callee, datasym = _module(isa, fmt)
    v1 = eng.int("first_value", 0, 0x7FFF)
    v2 = eng.int("second_value", 0, 0x7FFF)
    eng.assume(v1 != v2)
    ctx1 = InsertionContext(m, None, blk, 0, stack_adjustment=0)
    ctx2 = InsertionContext(m, None, blk, 4, stack_adjustment=0)
    seen = []

    def cb(ctx):
        seen.append(ctx)
        return v1 if ctx is ctx1 else v2
    patch = CallPatch(callee, [cb, 7])
    asm1 = patch.get_asm(ctx1)
    n1 = len(seen)
    asm2 = patch.get_asm(ctx2)
    eng.check(n1 >= 1 and all(c is ctx1 for c in seen[:n1]), "first insertion: callable not consulted with its context")
    eng.check(len(seen) > n1 and all(c is ctx2 for c in seen[n1:]),
              "second insertion of the same CallPatch: the argument callable was not consulted with the new context")
    if eng.sym:
        import re
        nums1 = [TOKENS[t] for t in re.findall(r"@T\d+\w*@", asm1)]
        nums2 = [TOKENS[t] for t in re.findall(r"@T\d+\w*@", asm2)]
        eng.check(any(eng.must(x == v1) for x in nums1) and not any(eng.must(x == v2) for x in nums1),
                  "first insertion does not pass the first value")
        eng.check(any(eng.must(x == v2) for x in nums2) and not any(eng.must(x == v1) for x in nums2),
                  "second insertion does not pass the value computed for its context")
    else:
        eng.check(asm1 != asm2, "both insertions pass the same value")
    # the text is a function of the arguments and the context only: asking the same patch object again (with enough
    # arguments that several travel on the stack) gives the text a fresh patch object gives
    consts = list(range(11, 23))
    p = CallPatch(callee, consts)
    first = p.get_asm(ctx1)
    second = p.get_asm(ctx1)
    third = p.get_asm(ctx2)
    fresh = CallPatch(callee, list(consts)).get_asm(ctx1)
    eng.check(first == fresh, "two CallPatch objects with the same arguments emit different code")
    # args is documented as an Iterable: a generator, an iterator and a map object are as good as a list
    for what, it in (("generator", (c for c in consts)), ("iterator", iter(list(consts))), ("map", map(int, consts))):
        eng.check(CallPatch(callee, it).get_asm(ctx1) == fresh, "arguments handed over as a %s are not passed like a list" % what)
    eng.check(second == fresh and third == fresh,
              "a CallPatch emits different code when it is asked a second/third time (state kept in the patch object)")


def h_call(eng, target, nargs, kinds, conv_kind, adj_kind):
    from gtirb_rewriting import InsertionContext
    from gtirb_rewriting.abi import CallingConventionDesc
    from gtirb_rewriting.patches import CallPatch

    isa, fmt = {"x64-elf": (gtirb.Module.ISA.X64, gtirb.Module.FileFormat.ELF),
                "x64-pe": (gtirb.Module.ISA.X64, gtirb.Module.FileFormat.PE),
                "ia32-pe": (gtirb.Module.ISA.IA32, gtirb.Module.FileFormat.PE),
                "arm64": (gtirb.Module.ISA.ARM64, gtirb.Module.FileFormat.ELF)}[target]
    ir, m, blk, callee, datasym = _module(isa, fmt)
    x86 = target != "arm64"
    ptr = 4 if target == "ia32-pe" else 8
    # ---- calling convention ------------------------------------------------------------
    conv = None
    if conv_kind != "default":
        nregs = eng.choose("nregs", [0, 1, 3])
        regs = (["rdi", "rsi", "rdx"] if x86 else ["x0", "x1", "x2"])[:nregs]
        if target == "ia32-pe":
            regs = []
        align = (1 << eng.choose("align_exp", [2, 3, 4, 5])) if x86 else 16
        shadow = 0
        if x86 and conv_kind == "custom-shadow":
            shq = eng.int("shadow_words", 0, 64)
            shadow = shq * ptr
        conv = CallingConventionDesc(registers=tuple(regs), stack_alignment=align,
                                     caller_cleanup=eng.choose("caller_cleanup", [True, False]),
                                     shadow_space=shadow)
    # ---- arguments -------------------------------------------------------------------------
    seen_ctx = []
    values = []
    args = []
    for i in range(nargs):
        k = kinds[i] if i < len(kinds) else kinds[-1]
        if k == "int":
            v = eng.int("arg%d" % i, -(2 ** 63), 2 ** 64 - 1)
            values.append(("int", v))

            def cb(ctx, _v=v):
                seen_ctx.append(ctx)
                return _v
            args.append(cb)
        elif k == "small":
            v = eng.int("arg%d" % i, -(2 ** 31), 2 ** 31 - 1)
            values.append(("int", v))
            args.append((lambda ctx, _v=v: (seen_ctx.append(ctx), _v)[1]))
        elif k == "dup" and args:
            # the very same argument (same callable object, same value) once more: equal arguments must still fill
            # their own register / stack slot each
            values.append(values[-1])
            args.append(args[-1])
        elif k == "five":
            values.append(("int", 5))  # equal plain integers
            args.append(5)
        elif k == "true":
            values.append(("int", 1))  # bool is an int: True is passed as 1
            args.append(True)
        elif k in ("tiny", "dup"):
            v = eng.int("arg%d" % i, 0, 0x7FFF)  # one path on every target
            values.append(("int", v))
            args.append((lambda ctx, _v=v: (seen_ctx.append(ctx), _v)[1]))
        else:
            values.append(("sym", "obj"))
            args.append(datasym)
    try:
        patch = CallPatch(callee, args, conv)
    except ValueError:
        # a convention the target cannot honour is refused when the patch is built (ARM64: shadow space, alignment other
        # than 16, callee cleanup) - a loud refusal, never code that leaves the stack pointer displaced
        eng.check(target == "arm64" and conv is not None and not conv.caller_cleanup,
                  "CallPatch refused a calling convention description the target supports")
        return
    cconv = conv or patch._imp._cconv if hasattr(patch._imp, "_cconv") else conv
    cconv = patch._imp._cconv
    if adj_kind == "none":
        adj = None
    else:
        adj = eng.int("stack_adjustment", 0, None)
        if target == "arm64":
            eng.assume(adj % 16 == 0)  # the stack pointer is 16-byte aligned at every instruction on ARM64
        elif ptr == 8:
            eng.assume(adj % 8 == 0)
        else:
            eng.assume(adj % 4 == 0)
    ictx = InsertionContext(m, None, blk, 0, stack_adjustment=adj)
    asm = patch.get_asm(ictx)
    for c in seen_ctx:
        eng.check(c is ictx, "an argument callable did not receive the insertion context")
    lines = [ln for ln in asm.split("\n") if ln.strip()]
    syms = {"callee", "obj"}
    # ---- symbolic CPU ----------------------------------------------------------------------------
    sp0 = eng.int("SP0", 0, None)
    aligned_point = sp0 + (adj if adj is not None else 0)
    eng.assume(aligned_point % cconv.stack_alignment == 0)
    eng.assume(sp0 % ptr == 0)
    sp = sp0
    regs = {}
    mem = []  # (address, value) words written by the patch, latest first
    called = False
    spname = "rsp" if ptr == 8 else "esp"
    nreg = len(cconv.registers)
    stack_values = values[nreg:]
    reg_values = values[:nreg]
    try:
        for ln in lines:
            op = parse_x86(ln, syms, ptr) if x86 else parse_arm64(ln, syms)
            if x86:
                if op[0] in ("sub", "add"):
                    eng.check(op[1] == spname, "arithmetic on %s in a call patch" % op[1])
                    sp = sp - op[2] if op[0] == "sub" else sp + op[2]
                elif op[0] == "mov":
                    regs[op[1]] = op[2]
                elif op[0] == "push":
                    sp = sp - ptr
                    mem.insert(0, (sp, op[1]))
                elif op[0] == "call":
                    eng.check(op[1] == "callee", "call to %s" % op[1])
                    called = True
                    sp_call = sp
                    regs_at_call = dict(regs)
                    mem_at_call = list(mem)
                    if not cconv.caller_cleanup:
                        sp = sp + ptr * len(stack_values)  # the callee pops its stack arguments
            else:
                if op[0] in ("sub_sp", "add_sp"):
                    sp = sp - op[1] if op[0] == "sub_sp" else sp + op[1]
                elif op[0] == "mov":
                    regs[op[1]] = ("imm", op[2])
                elif op[0] == "movz":
                    regs[op[1]] = ("imm", op[2])
                elif op[0] == "movk":
                    old = regs.get(op[1])
                    eng.check(old is not None and old[0] == "imm", "movk on a register without a known value")
                    # the 16-bit field at `shift` is replaced; it is zero before (movz cleared the register)
                    regs[op[1]] = ("imm", old[1] + op[2] * (1 << op[3]))
                    eng.check(And(op[2] >= 0, op[2] < 65536), "movk immediate out of range")
                elif op[0] == "adrp":
                    regs[op[1]] = ("page", op[2])
                elif op[0] == "addlo12":
                    eng.check(regs.get(op[2]) == ("page", op[3]), "add :lo12: without the matching adrp")
                    regs[op[1]] = ("addr", op[3])
                elif op[0] == "str":
                    mem.insert(0, (sp + op[2], regs.get(op[1])))
                elif op[0] == "bl":
                    called = True
                    sp_call = sp
                    regs_at_call = dict(regs)
                    mem_at_call = list(mem)
                    if not cconv.caller_cleanup:
                        sp = sp + 8 * len(stack_values)  # the callee pops its stack arguments
    except Reject as rj:
        eng.fail("emitted assembly is not valid: %s" % rj, finding=_finding(target, values, str(rj)), asm=asm)
    eng.check(called, "no call instruction emitted")
    eng.check(sp == sp0, "the stack pointer is not restored after the call", finding=None)
    eng.check(sp_call % cconv.stack_alignment == 0, "the call executes with a misaligned stack pointer",
              finding="C17-shadow-space-not-in-padding" if cconv.shadow_space and conv_kind == "custom-shadow" else None)

    def value_ok(got, want, where):
        if want[0] == "int":
            if got is None or got[0] != "imm":
                eng.fail("%s does not hold an immediate: %r" % (where, got))
            if x86 and where.startswith("stack"):
                # push imm: the assembler only has a sign-extended 32-bit immediate form
                if not bool(And(want[1] >= -(2 ** 31), want[1] < 2 ** 31)):
                    eng.fail("%s: integer outside the signed 32-bit range cannot be pushed as an immediate" % where,
                             finding="C17-x86-stack-integer-beyond-imm32")
            modulus = M64 if ptr == 8 else 2 ** 32
            eng.check((got[1] - want[1]) % modulus == 0, "%s does not hold the argument's value" % where)
        else:
            if x86:
                if got == ("mem_at_symbol", want[1]):
                    eng.fail("%s is loaded from the symbol's memory, not with the symbol's address" % where,
                             finding="C17-x86-elf-symbol-argument-loads-contents")
                if where.startswith("register") and got == ("symbol_operand", want[1]):
                    eng.fail("%s: 'mov reg, symbol' in Intel syntax loads the contents, not the address" % where,
                             finding="C17-x86-pe-symbol-argument-loads-contents")
                eng.check(got == ("symbol_operand", want[1]), "%s does not hold the symbol's address" % where)
            else:
                eng.check(got == ("addr", want[1]), "%s does not hold the symbol's address: %r" % (where, got))

    for i, want in enumerate(reg_values):
        r = cconv.registers[i].lower()
        value_ok(regs_at_call.get(r), want, "register %s (argument %d)" % (r, i))
    for j, want in enumerate(stack_values):
        addr = sp_call + cconv.shadow_space + ptr * j
        hits = [v for (a, v) in mem_at_call if eng.must(a == addr)]
        eng.check(len(hits) >= 1, "stack argument %d is not at SP + shadow + %d*word at the call" % (j, j))
        value_ok(hits[0], want, "stack slot %d" % j)
    # every store of the patch is below the stack pointer it started with
    for (a, v) in mem:
        eng.check(a < sp0, "the patch writes at or above its initial stack pointer")
    # ---- translation validation on the concrete replay: the real assembler must accept the text ---------------
    if not eng.sym:
        from gtirb_rewriting.assembler import Assembler
        from gtirb_rewriting.assembly import X86Syntax
        a = Assembler(m, temp_symbol_suffix="_1")
        a.assemble(asm, X86Syntax.INTEL)
        res = a.finalize()
        data = bytes(res.text_section.data)
        imms = _decoded_immediates(data, target)
        want_imms = []
        for ln in lines:
            op = parse_x86(ln, syms, ptr) if x86 else parse_arm64(ln, syms)
            if x86 and op[0] in ("sub", "add"):
                want_imms.append(op[2])
            elif x86 and op[0] == "mov" and op[2][0] == "imm":
                want_imms.append(op[2][1])
            elif x86 and op[0] == "push" and op[1][0] == "imm":
                want_imms.append(op[1][1])
        if x86:
            modulus = M64 if ptr == 8 else 2 ** 32
            eng.check(len(imms) == len(want_imms) and all((g - w) % modulus == 0 for g, w in zip(imms, want_imms)),
                      "immediates decoded from the assembled bytes %s differ from the text-level ones %s" % (imms, want_imms))


def _decoded_immediates(data, target):
    import capstone
    if target == "arm64":
        return []
    md = capstone.Cs(capstone.CS_ARCH_X86, capstone.CS_MODE_64 if target != "ia32-pe" else capstone.CS_MODE_32)
    md.detail = True
    out = []
    for insn in md.disasm(data, 0x1000):
        if insn.mnemonic in ("mov", "movabs", "push", "sub", "add"):
            for op in insn.operands:
                if op.type == capstone.x86.X86_OP_IMM:
                    out.append(op.imm)
    return out


def _finding(target, values, why):
    if target == "arm64" and "0x-" in why:
        return "C17-arm64-negative-immediate"
    return None


def classify(rec):
    if rec.get("exc") == "AsmSyntaxError":
        return "violation"
    return "violation"


def make_check(tier):
    chk = run.Check("C17", tier, level="translation_validation")
    chk.install_shims = install
    chk.classify_exception = classify
    quick = tier == "quick"
    counts = [0, 1, 2, 5, 7, 9] if quick else [0, 1, 2, 3, 4, 5, 6, 7, 8, 9, 11, 16]
    nregs = {"x64-elf": 6, "x64-pe": 4, "ia32-pe": 0, "arm64": 8}
    for target in ("x64-elf", "x64-pe", "ia32-pe", "arm64"):
        for n in counts:
            # one argument ranges over the full 64-bit domain (or is a symbol), the others take one path each
            focus_positions = sorted({0, min(n - 1, nregs[target] - 1), min(n - 1, nregs[target]), n - 1}) if n else [None]
            focus_positions = [p for p in focus_positions if p is None or p >= 0]
            for fp in focus_positions:
                for fk in (("int", "sym") if n else ("none",)):
                    kinds = ["tiny"] * n
                    if fp is not None:
                        kinds[fp] = fk
                    for adj_kind in ("symbolic", "none"):
                        if quick and adj_kind == "none" and fk == "sym":
                            continue
                        chk.add("call/%s/%dargs/%s@%s/default/adj-%s" % (target, n, fk, fp, adj_kind), h_call,
                                params=dict(target=target, nargs=n, kinds=kinds or ["tiny"], conv_kind="default", adj_kind=adj_kind),
                                timeout=3000)
        if not quick:
            k = 2 if target == "arm64" else 3  # the ARM64 immediate loader splits ~17 ways per full-range argument
            chk.add("call/%s/%dargs/all-int/default/adj-symbolic" % (target, k), h_call,
                    params=dict(target=target, nargs=k, kinds=["int"] * k, conv_kind="default", adj_kind="symbolic"),
                    timeout=20000)
        for n in ([0, 2, 5] if quick else [0, 1, 2, 4, 5, 8]):
            for conv_kind in ("custom", "custom-shadow"):
                if target == "arm64" and conv_kind == "custom-shadow":
                    continue
                chk.add("call/%s/%dargs/tiny/%s/adj-symbolic" % (target, n, conv_kind), h_call,
                        params=dict(target=target, nargs=n, kinds=["tiny"], conv_kind=conv_kind, adj_kind="symbolic"), timeout=3000)
    for target in ("x64-elf", "x64-pe", "ia32-pe", "arm64"):
        for kinds in (["tiny", "tiny", "dup", "dup", "tiny", "dup"], ["five", "tiny", "five", "five", "five"],
                      ["true", "tiny", "true", "true"]):
            chk.add("call/%s/%dargs/%s/custom/adj-symbolic" % (target, len(kinds), "-".join(kinds)), h_call,
                    params=dict(target=target, nargs=len(kinds), kinds=kinds, conv_kind="custom", adj_kind="symbolic"), timeout=3000)
        chk.add("call/%s/11args/equal-stack-args/default/adj-symbolic" % target, h_call,
                params=dict(target=target, nargs=11, kinds=["tiny"] * 8 + ["five", "five", "dup"], conv_kind="default",
                            adj_kind="symbolic"), timeout=3000)
    for target in ("x64-elf", "x64-pe", "ia32-pe", "arm64"):
        chk.add("reuse/%s" % target, h_call_reuse, params=dict(target=target), timeout=600)
    chk.bounds = {
        "targets": "x86-64 ELF, x86-64 PE, IA32 PE, ARM64 ELF",
        "reuse": "one CallPatch with a callable argument applied with two insertion contexts",
        "arguments": "0..%d arguments; in each shape one argument (first, last register, first stack slot, last) is an integer over "
                     "the full range [-2^63, 2^64) or a symbol, the others integers in [0, 2^15); all integers through callables; "
                     "thorough adds three (ARM64: two) full-range integers at once" % counts[-1],
        "conventions": "default; custom with 0/1/3 registers, alignment 2^2..2^5, caller/callee cleanup; custom with a shadow space of "
                       "a symbolic number (0..64) of words",
        "prologue": "stack_adjustment: any non-negative multiple of the word size, or None (align_stack); initial stack pointer any value "
                    "that is aligned after removing the adjustment",
        "x86 immediates": "the symbolic CPU works on the emitted text; encodings chosen by the assembler (imm32/imm64, sign extension) "
                          "are observed only on the concrete replays (one z3 witness per path), where capstone-decoded immediates "
                          "must equal the text-level ones",
    }
    chk.assumptions = [
        "text front-end grammar: sub/add sp, mov, push, call; ARM64 sub/add sp, mov, movz, movk lsl, adrp, add :lo12:, str [sp,#], bl; "
        "anything else is rejected and reported (confirmed or refuted by the real assembler on the replay)",
        "SymInt.__format__/__str__ emit placeholder tokens and split on the sign like CPython ('-' then the magnitude)",
        "`isinstance` in patches/calls.py accepts SymInt as int",
        "callee-cleanup conventions: the callee pops exactly its stack arguments",
    ]
    chk.extra = {}
    return chk
