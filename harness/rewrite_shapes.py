"""Scenario shapes for the symbolic rewrite harness (structure is enumerated
here; every size, offset and address inside a shape is symbolic)."""
import copy

TERMS = ["o", "jcc:s0", "jmp:s0", "call:s2", "ret", "icall", "ijmp"]


def text_layout(term="jcc:s0", funcs=True, annots=True, b0_term="o"):
    spec = {
        "sections": [{"name": ".text", "exec": True, "blocks": [
            {"id": "b0", "kind": "code", "atoms": ["o", b0_term], "syms": ["s0"], "func": "F" if funcs else None,
             "entry": True},
            {"id": "b1", "kind": "code", "atoms": ["o", "o", term], "syms": ["s1", "s1b"], "esyms": ["e1"],
             "func": "F" if funcs else None},
            {"id": "b2", "kind": "code", "atoms": ["o", "ret"], "syms": ["s2"], "esyms": ["e2"], "func": "G" if funcs else None,
             "entry": True},
        ]}],
        "ext": ["ext1"],
        "mods": [],
        "annots": [],
    }
    if annots:
        spec["annots"] = [
            {"blk": "b1", "atom": 0, "kind": "comment", "keyed": "block"},
            {"blk": "b1", "atom": 1, "kind": "symexpr", "sym": "s2", "size": 4},
            {"blk": "b1", "atom": 1, "kind": "padding", "keyed": "interval"},
            {"blk": "b2", "atom": 0, "kind": "comment", "keyed": "interval"},
            {"blk": "b0", "atom": 1, "kind": "comment", "keyed": "block", "at": "start"},
        ]
    return spec


def nolabel_layout():
    """b1 carries no label of its own, so labels that slide onto it must be forwarded again"""
    spec = text_layout("o")
    b1 = spec["sections"][0]["blocks"][1]
    b1["syms"] = []
    b1["esyms"] = []
    spec["sections"][0]["blocks"][0]["esyms"] = ["e0"]
    spec["annots"] = []
    return spec


def leadgap_layout(term="jcc:s0", annots=True):
    """bytes that belong to no block in front of the first block: after the per-block split the first block does not
    start at offset 0 of its byte interval"""
    spec = text_layout(term, annots=annots)
    spec["sections"][0]["blocks"][0]["gap"] = True
    return spec


def lone_block_layout():
    """a section that holds a single labelled block (one function per section, -ffunction-sections)"""
    spec = text_layout("o", annots=False)
    spec["sections"].append({"name": ".text.lone", "exec": True, "blocks": [
        {"id": "c0", "kind": "code", "atoms": ["o", "ret"], "syms": ["lone"], "esyms": ["lone_end"], "func": "L", "entry": True}]})
    spec["sections"].append({"name": ".data.lone", "exec": False, "blocks": [
        {"id": "q0", "kind": "data", "atoms": ["d", "d"], "syms": ["lone_d"], "esyms": ["lone_d_end"]}]})
    return spec


def orphan_mid_layout():
    """F = {b0}, a code block in no function (padding between functions), G = {b2}"""
    spec = text_layout("o", annots=False)
    blocks = spec["sections"][0]["blocks"]
    blocks[1]["func"] = None
    blocks[1]["syms"] = []
    blocks[1]["esyms"] = []
    return spec


def interleaved_layout():
    """F entry, G entry, F block, F block: function F is interleaved with G"""
    return {
        "sections": [{"name": ".text", "exec": True, "blocks": [
            {"id": "b0", "kind": "code", "atoms": ["o", "jmp:s2"], "syms": ["s0"], "func": "F", "entry": True},
            {"id": "b1", "kind": "code", "atoms": ["o", "ret"], "syms": ["s1"], "func": "G", "entry": True},
            {"id": "b2", "kind": "code", "atoms": ["o", "o"], "syms": ["s2"], "func": "F"},
            {"id": "b3", "kind": "code", "atoms": ["o", "ret"], "syms": ["s3"], "func": "F"},
        ]}],
        "ext": [], "mods": [], "annots": [],
    }


def callgraph_layout(second_call=False):
    """F = {b0 (calls G), b1}; G = {b2 entry (jcc to b4), b3 ret, b4 ret}: a multi-block callee"""
    return {
        "sections": [{"name": ".text", "exec": True, "blocks": [
            {"id": "b0", "kind": "code", "atoms": ["o", "call:s2"], "syms": ["s0"], "func": "F", "entry": True},
            {"id": "b1", "kind": "code", "atoms": ["o", "call:s2" if second_call else "o"], "syms": ["s1"], "func": "F"},
            {"id": "b1r", "kind": "code", "atoms": ["o", "ret"], "syms": ["s1r"], "func": "F"},
            {"id": "b2", "kind": "code", "atoms": ["o", "jcc:s4"], "syms": ["s2"], "func": "G", "entry": True},
            {"id": "b3", "kind": "code", "atoms": ["o", "ret"], "syms": ["s3"], "func": "G"},
            {"id": "b4", "kind": "code", "atoms": ["o", "ret"], "syms": ["s4"], "func": "G"},
        ]}],
        "ext": ["ext1"], "mods": [], "annots": [],
    }


def resolved_icall_layout():
    """F = {b0 (indirect call that the analysis resolved to G), b1, b1r}; G = {b2 entry, b3 ret}"""
    return {
        "sections": [{"name": ".text", "exec": True, "blocks": [
            {"id": "b0", "kind": "code", "atoms": ["o", "rcall:s2"], "syms": ["s0"], "func": "F", "entry": True},
            {"id": "b1", "kind": "code", "atoms": ["o", "o"], "syms": ["s1"], "func": "F"},
            {"id": "b1r", "kind": "code", "atoms": ["o", "ret"], "syms": ["s1r"], "func": "F"},
            {"id": "b2", "kind": "code", "atoms": ["o", "o"], "syms": ["s2"], "func": "G", "entry": True},
            {"id": "b3", "kind": "code", "atoms": ["o", "ret"], "syms": ["s3"], "func": "G"},
        ]}],
        "ext": ["ext1"], "mods": [], "annots": [],
    }


def two_entries_layout():
    """one function over three blocks with two entry blocks (b0 and b2)"""
    spec = text_layout("o", annots=False)
    blocks = spec["sections"][0]["blocks"]
    for b in blocks:
        b["func"] = "F"
    blocks[2]["entry"] = True
    return spec


def mixed_layout():
    """code, data in the middle of .text, code; plus a .data section"""
    return {
        "sections": [
            {"name": ".text", "exec": True, "blocks": [
                {"id": "b0", "kind": "code", "atoms": ["o", "jmp:s2"], "syms": ["s0"], "func": "F", "entry": True},
                {"id": "b1", "kind": "data", "atoms": ["d", "d"], "syms": ["s1"], "esyms": ["e1"]},
                {"id": "b2", "kind": "code", "atoms": ["o", "ret"], "syms": ["s2"], "func": "F"},
            ]},
            {"name": ".data", "exec": False, "blocks": [
                {"id": "d0", "kind": "data", "atoms": ["d", "d"], "syms": ["ds0"], "esyms": ["de0"]},
                {"id": "d1", "kind": "data", "atoms": ["d"], "syms": ["ds1"], "gap": True},
            ], "tail_gap": True},
        ],
        "ext": ["ext1"],
        "mods": [],
        "annots": [
            {"blk": "b1", "atom": 0, "kind": "symexpr", "sym": "s2", "size": 8},
            {"blk": "d0", "atom": 1, "kind": "symexpr", "sym": "ds1", "size": 8},
            {"blk": "d0", "atom": 0, "kind": "comment", "keyed": "interval"},
            {"blk": "d1", "atom": 0, "kind": "comment", "keyed": "block"},
        ],
    }


def ins(blk, at, patch):
    return {"op": "insert", "blk": blk, "at": at, "patch": patch}


def dele(blk, at, to, proxy=False):
    return {"op": "delete", "blk": blk, "at": at, "to": to, "proxy": proxy}


def rep(blk, at, to, patch):
    return {"op": "replace", "blk": blk, "at": at, "to": to, "patch": patch}


def mods_name(mods):
    out = []
    for m in mods:
        if m["op"] == "insert_function":
            out.append("fn:%s:%s" % (m["name"], m["patch"]))
        elif m["op"] == "insert":
            out.append("i%s@%d:%s" % (m["blk"], m["at"], m["patch"]))
        elif m["op"] == "delete":
            out.append("d%s[%d,%d)%s" % (m["blk"], m["at"], m["to"], "P" if m.get("proxy") else ""))
        else:
            out.append("r%s[%d,%d):%s" % (m["blk"], m["at"], m["to"], m["patch"]))
    return "+".join(out) or "none"


def single_mods_b1():
    out = []
    for j in range(4):
        out.append([ins("b1", j, "mov")])
        out.append([ins("b1", j, "label")])
    for j in (0, 2, 3):
        for p in ("jcc_tmp", "ret", "jmp:s2", "call:s2", "icall", "lea:s0", "call:ext1"):
            out.append([ins("b1", j, p)])
    for (a, b) in ((0, 1), (1, 2), (2, 3), (0, 2), (1, 3), (0, 3)):
        out.append([dele("b1", a, b)])
    out.append([dele("b1", 0, 3, proxy=True)])
    for (a, b) in ((0, 1), (1, 2), (2, 3), (0, 3)):
        out.append([rep("b1", a, b, "mov")])
    out.append([rep("b1", 2, 3, "jmp:s2")])
    out.append([rep("b1", 0, 3, "label")])
    return out


def pair_mods():
    out = []
    # same block, same and different offsets, both registration orders
    for j in (0, 1, 3):
        out.append([ins("b1", j, "mov"), ins("b1", j, "label")])
    out.append([ins("b1", 3, "mov"), ins("b1", 1, "label")])
    out.append([ins("b1", 1, "mov"), ins("b1", 2, "two")])
    for (a, b) in ((1, 2), (0, 1), (2, 3), (1, 3)):
        out.append([ins("b1", a, "mov"), dele("b1", a, b)])  # insertion at the start of a deletion
        out.append([dele("b1", a, b), ins("b1", b, "mov")])  # insertion right after a deletion
        out.append([ins("b1", b, "label"), dele("b1", a, b)])
    out.append([dele("b1", 0, 1), dele("b1", 2, 3)])
    out.append([dele("b1", 1, 2), dele("b1", 0, 1)])
    out.append([rep("b1", 0, 1, "mov"), rep("b1", 1, 3, "label")])
    out.append([ins("b1", 1, "mov"), dele("b1", 1, 3), ins("b1", 3, "label")])
    out.append([ins("b1", 1, "label"), dele("b1", 1, 3), ins("b1", 3, "mov")])
    out.append([ins("b1", 0, "label"), dele("b1", 0, 3), ins("b1", 3, "mov")])
    out.append([ins("b1", 1, "jcc_tmp"), dele("b1", 1, 2), ins("b1", 2, "mov")])
    out.append([dele("b1", 0, 3), ins("b1", 3, "mov")])
    # neighbouring blocks
    out.append([ins("b0", 2, "mov"), ins("b1", 0, "label")])
    out.append([ins("b1", 3, "mov"), ins("b2", 0, "label")])
    out.append([dele("b0", 0, 2), dele("b1", 0, 3)])
    out.append([dele("b1", 0, 3), dele("b2", 0, 2)])
    out.append([dele("b0", 0, 2), dele("b1", 0, 3), dele("b2", 0, 2)])
    out.append([dele("b1", 0, 3), ins("b2", 0, "mov")])
    out.append([ins("b0", 2, "mov"), dele("b1", 0, 3)])
    out.append([dele("b0", 0, 2, proxy=True), dele("b1", 0, 3, proxy=True)])
    out.append([dele("b2", 0, 2, proxy=True)])
    out.append([dele("b2", 0, 2)])
    out.append([dele("b0", 0, 2)])
    out.append([ins("b2", 2, "mov")])
    out.append([ins("b0", 0, "label"), dele("b0", 0, 1)])
    # a patch with symbolic operands lands in a tail piece that no longer starts at offset 0 of its byte interval
    out.append([ins("b1", 1, "call:s2"), ins("b1", 2, "call:ext1")])
    out.append([ins("b1", 0, "jmp:s2"), ins("b1", 3, "lea:s0")])
    out.append([ins("b1", 1, "icall"), ins("b1", 2, "ripimm:s2"), ins("b1", 3, "lea:s1")])
    # declining patches (get_asm returns nothing) followed by later requests in the same block
    out.append([rep("b1", 0, 1, "decline"), ins("b1", 2, "mov")])
    out.append([rep("b1", 0, 2, "decline"), dele("b1", 2, 3)])
    out.append([ins("b1", 1, "decline"), ins("b1", 1, "mov"), rep("b1", 2, 3, "decline")])
    out.append([rep("b1", 1, 2, "decline"), rep("b1", 2, 3, "label")])
    # a later patch names the label of a block that an earlier modification deleted, split or joined
    out.append([dele("b1", 0, 3), ins("b2", 1, "jmp:s1")])
    out.append([dele("b1", 0, 3), ins("b2", 1, "lea:s1")])
    out.append([dele("b0", 0, 2), ins("b1", 1, "call:s0")])
    out.append([ins("b1", 1, "label"), ins("b2", 1, "jmp:e1")])
    out.append([dele("b1", 0, 1), ins("b2", 1, "jmp:s1")])
    out.append([dele("b1", 2, 3), ins("b2", 1, "lea:e1")])
    return out


def systematic_pairs():
    """Every pair of single requests on b1 whose ranges do not overlap, in both registration orders
    (thorough tier)."""
    singles = []
    for j in range(4):
        singles.append(ins("b1", j, "mov"))
        singles.append(ins("b1", j, "label"))
    for j in (0, 3):
        singles.append(ins("b1", j, "ret"))
        singles.append(ins("b1", j, "call:s2"))
        singles.append(ins("b1", j, "jcc_tmp"))
    for (a, b) in ((0, 1), (1, 2), (2, 3), (0, 2), (1, 3), (0, 3)):
        singles.append(dele("b1", a, b))
        singles.append(rep("b1", a, b, "mov"))
    out = []

    def rng(m):
        return (m["at"], m.get("to", m["at"]))

    for i, m1 in enumerate(singles):
        for m2 in singles[i + 1:]:
            a, b = rng(m1), rng(m2)
            if a[0] < b[1] and b[0] < a[1]:
                continue  # ranges overlap
            if m1.get("patch") == m2.get("patch") == "label":
                continue  # would define one global label twice
            if m1["op"] == "insert" and m2["op"] == "insert" and m1["patch"] == m2["patch"] and m1["at"] == m2["at"]:
                continue
            out.append([copy.deepcopy(m1), copy.deepcopy(m2)])
            if a[0] != b[0] or (m1["op"] == "insert" and m2["op"] == "insert"):
                out.append([copy.deepcopy(m2), copy.deepcopy(m1)])
    return out


def mixed_mods():
    out = [[]]
    out.append([ins("b1", 1, "rawbytes")])
    out.append([ins("b1", 0, "rawbytes")])
    out.append([ins("b1", 2, "rawbytes")])
    out.append([rep("b1", 0, 1, "rawbytes")])
    out.append([rep("b1", 0, 2, "rawbytes")])
    out.append([dele("b1", 0, 2)])
    out.append([dele("b1", 1, 2)])
    out.append([dele("b1", 0, 1)])
    out.append([ins("b1", 1, "dq:s2")])
    out.append([ins("b1", 1, "mov")])  # code patch into a data block
    out.append([ins("d0", 1, "rawbytes"), dele("d0", 1, 2)])
    out.append([dele("d0", 0, 2)])
    out.append([dele("d1", 0, 1)])
    out.append([dele("d0", 0, 2), dele("d1", 0, 1)])
    out.append([ins("d0", 2, "rawbytes"), ins("d1", 0, "dq:ds0")])
    out.append([rep("d0", 0, 1, "dq:ds1"), ins("d1", 1, "rawbytes")])
    out.append([dele("b0", 0, 2), dele("b1", 0, 2)])
    out.append([dele("b0", 1, 2)])
    out.append([ins("b0", 2, "mov")])
    out.append([dele("b2", 0, 2)])
    out.append([ins("b2", 0, "label"), ins("d0", 0, "rawbytes")])
    return out


def shapes(tier):
    """-> [(shape id, spec)]"""
    out = []
    for term in TERMS:
        singles = single_mods_b1()
        if tier == "quick" and term not in ("jcc:s0", "ret"):
            singles = singles[::3]
        for mods in singles:
            spec = text_layout(term)
            spec["mods"] = copy.deepcopy(mods)
            out.append(("text/%s/%s" % (term, mods_name(mods)), spec))
    for term in (("jcc:s0",) if tier == "quick" else ("jcc:s0", "call:s2", "ret", "o")):
        for mods in pair_mods():
            spec = text_layout(term)
            spec["mods"] = copy.deepcopy(mods)
            out.append(("pairs/%s/%s" % (term, mods_name(mods)), spec))
    if tier == "thorough":
        for term in ("jcc:s0", "ret", "call:s2"):
            for mods in systematic_pairs():
                spec = text_layout(term)
                spec["mods"] = mods
                out.append(("syspairs/%s/%s" % (term, mods_name(mods)), spec))
    for b0_term in ("call:s2", "jcc:s2"):
        for mods in ([dele("b1", 0, 3)], [dele("b0", 1, 2)], [ins("b0", 2, "mov")], [dele("b2", 0, 2)],
                     [rep("b0", 1, 2, "call:s2")], [dele("b0", 0, 2)]):
            spec = text_layout("o", b0_term=b0_term)
            spec["mods"] = copy.deepcopy(mods)
            out.append(("b0term/%s/%s" % (b0_term, mods_name(mods)), spec))
    for mods in mixed_mods():
        spec = mixed_layout()
        spec["mods"] = copy.deepcopy(mods)
        out.append(("mixed/%s" % mods_name(mods), spec))
    for mods in ([dele("b0", 0, 2), dele("b1", 0, 3)], [dele("b0", 0, 2), dele("b1", 0, 3), dele("b2", 0, 2)],
                 [dele("b1", 0, 3), dele("b2", 0, 2)], [dele("b1", 0, 3), dele("b0", 0, 2)],
                 [dele("b0", 0, 2, proxy=True), dele("b1", 0, 3, proxy=True)], [dele("b1", 0, 3)],
                 [ins("b1", 0, "mov"), dele("b0", 0, 2)]):
        spec = nolabel_layout()
        spec["mods"] = copy.deepcopy(mods)
        out.append(("nolabel/%s" % mods_name(mods), spec))
    for mods in ([dele("b0", 0, 2)], [dele("b0", 0, 2), dele("b2", 0, 2)], [dele("b0", 0, 2), dele("b3", 0, 2)],
                 [dele("b2", 0, 2), dele("b3", 0, 2)], [dele("b0", 0, 2), dele("b2", 0, 2), dele("b3", 0, 2)],
                 [dele("b0", 0, 2, proxy=True), dele("b2", 0, 2, proxy=True)], [dele("b1", 0, 2)],
                 [dele("b0", 0, 2), dele("b1", 0, 2)], [ins("b2", 0, "label"), dele("b0", 0, 2)],
                 [dele("b0", 1, 2), dele("b2", 0, 2)]):
        spec = interleaved_layout()
        spec["mods"] = copy.deepcopy(mods)
        out.append(("interleaved/%s" % mods_name(mods), spec))
    for second in (False, True):
        for mods in ([dele("b0", 1, 2)], [rep("b0", 1, 2, "mov")], [dele("b0", 0, 2)], [dele("b0", 0, 2, proxy=True)],
                     [dele("b0", 0, 2, proxy=True), dele("b1", 0, 2, proxy=True), dele("b1r", 0, 2, proxy=True)], [ins("b1", 1, "call:s2")],
                     [ins("b0", 0, "call:s2")], [rep("b0", 1, 2, "call:s2")], [dele("b3", 0, 2)], [dele("b2", 0, 2)],
                     [ins("b3", 1, "call:s2")], [ins("b1", 0, "call:ext1")], [dele("b1", 1, 2)], [ins("b4", 1, "ret")],
                     [dele("b0", 1, 2), ins("b1", 1, "call:s2")], [ins("b0", 2, "mov")],
                     [ins("b2", 1, "ret")], [ins("b2", 0, "ret"), ins("b1", 1, "call:s2")],
                     # one patch that calls the same function twice: the callee returns to both sites
                     [ins("b1", 1, "twocalls:s2")], [ins("b0", 0, "twocalls:s2")],
                     # the entry block and the block promoted in its place both go, a third block of the function stays
                     [dele("b0", 0, 2), dele("b1", 0, 2)], [dele("b1", 0, 2), dele("b0", 0, 2)]):
            spec = callgraph_layout(second)
            spec["mods"] = copy.deepcopy(mods)
            out.append(("callgraph%d/%s" % (2 if second else 1, mods_name(mods)), spec))
    for at in (0, 1, 3):
        spec = text_layout("jcc:s0")
        spec["mods"] = [ins("b1", at, "selfloop")]
        out.append(("text/jcc:s0/%s" % mods_name(spec["mods"]), spec))
    spec = text_layout("jcc:s0")
    spec["mods"] = [rep("b1", 0, 3, "selfloop")]
    out.append(("text/jcc:s0/%s" % mods_name(spec["mods"]), spec))
    for mods in ([ins("d0", 1, "byte")], [dele("d0", 0, 1)], [ins("d1", 1, "byte")], [dele("d1", 0, 1)], [ins("d1", 0, "quad")],
                 [rep("d0", 1, 2, "byte")], [ins("b1", 1, "byte")]):
        spec = mixed_layout()
        spec["sections"][1]["uninit_tail"] = True
        spec["mods"] = copy.deepcopy(mods)
        out.append(("uninit-tail/%s" % mods_name(mods), spec))
    for mods in ([], [ins("b0", 2, "mov")], [ins("b0", 2, "label")], [ins("b1", 0, "mov")], [dele("b0", 1, 2)], [rep("b0", 1, 2, "mov")],
                 [ins("b0", 1, "mov")], [dele("b1", 0, 2)], [ins("b0", 2, "call:s2")], [dele("b3", 0, 2)]):
        spec = resolved_icall_layout()
        spec["mods"] = copy.deepcopy(mods)
        out.append(("resolved-icall/%s" % mods_name(mods), spec))
    for mods in ([dele("c0", 0, 2, proxy=True)], [dele("c0", 0, 2)], [ins("c0", 1, "mov")], [dele("c0", 0, 1)],
                 [dele("c0", 0, 2, proxy=True), dele("b1", 0, 3)], [dele("q0", 0, 2)], [dele("q0", 0, 2, proxy=True)],
                 [dele("q0", 1, 2)], [ins("q0", 1, "byte")]):
        spec = lone_block_layout()
        spec["mods"] = copy.deepcopy(mods)
        out.append(("lone/%s" % mods_name(mods), spec))
    for mods in ([dele("b0", 0, 2)], [dele("b2", 0, 2)], [dele("b0", 0, 2), dele("b1", 0, 3)], [ins("b1", 1, "mov")], [dele("b1", 0, 3)]):
        spec = orphan_mid_layout()
        spec["mods"] = copy.deepcopy(mods)
        out.append(("orphan-mid/%s" % mods_name(mods), spec))
    for mods in ([dele("b0", 0, 2)], [dele("b2", 0, 2)], [dele("b0", 0, 2), dele("b1", 0, 3)], [dele("b0", 0, 1)],
                 [ins("b0", 0, "mov"), dele("b0", 0, 2)]):
        spec = two_entries_layout()
        spec["mods"] = copy.deepcopy(mods)
        out.append(("two-entries/%s" % mods_name(mods), spec))
    for at in (0, 1, 3):
        spec = text_layout("jcc:s0")
        spec["mods"] = [ins("b1", at, "alias_data")]
        out.append(("text/jcc:s0/%s" % mods_name(spec["mods"]), spec))
    spec = mixed_layout()
    spec["mods"] = [ins("d0", 1, "alias_data")]
    out.append(("mixed/%s" % mods_name(spec["mods"]), spec))
    for at in (0, 1, 3):
        spec = text_layout("jcc:s0")
        spec["mods"] = [ins("b1", at, "trail_label")]
        out.append(("text/jcc:s0/%s" % mods_name(spec["mods"]), spec))
    for blk, at in (("b1", 1), ("b1", 2), ("d0", 1), ("d1", 0)):
        # data blocks only: the first block of a patch spliced into code stays code
        spec = mixed_layout()
        spec["mods"] = [ins(blk, at, "trail_label_data")]
        out.append(("mixed/%s" % mods_name(spec["mods"]), spec))
    for at in (0, 1, 3):
        # the callee (b2, function G) has no caller yet: its ret leads to the unknown-callers proxy
        spec = text_layout("jcc:s0")
        spec["mods"] = [ins("b1", at, "twocalls:s2")]
        out.append(("text/jcc:s0/%s" % mods_name(spec["mods"]), spec))
    for p in ("ripimm:s2", "ripimm4:s0"):
        spec = text_layout("jcc:s0")
        spec["mods"] = [ins("b1", 1, p)]
        out.append(("text/jcc:s0/%s" % mods_name(spec["mods"]), spec))
    for mods in ([{"op": "insert_function", "name": "newfn", "patch": "func_body"}],
                 [{"op": "insert_function", "name": "newfn", "patch": "func_simple"}, ins("b1", 1, "call:newfn")],
                 [{"op": "insert_function", "name": "newfn", "patch": "func_body"}, dele("b1", 0, 3)],
                 # two inserted functions in one context: each keeps its own rows in the three tables
                 [{"op": "insert_function", "name": "newfn", "patch": "func_simple"},
                  {"op": "insert_function", "name": "newfn2", "patch": "func_body"}],
                 [{"op": "insert_function", "name": "newfn", "patch": "func_body"},
                  {"op": "insert_function", "name": "newfn2", "patch": "func_simple"}, ins("b1", 1, "call:newfn2")]):
        spec = text_layout("jcc:s0", annots=False)
        spec["sections"][0]["blocks"][0]["align"] = 1  # a user alignment entry keeps gtirb_layout from guessing alignments
        spec["mods"] = copy.deepcopy(mods)
        out.append(("newfunc/%s" % mods_name(mods), spec))
    for mods in ([ins("b0", 0, "mov")], [ins("b0", 1, "label")], [ins("b0", 2, "mov")], [dele("b0", 0, 1)], [rep("b0", 1, 2, "two")],
                 [dele("b0", 0, 2)], [ins("b0", 1, "mov"), ins("b1", 1, "mov")], [ins("b1", 0, "mov")]):
        spec = leadgap_layout()
        spec["mods"] = copy.deepcopy(mods)
        out.append(("leadgap/%s" % mods_name(mods), spec))
    # no function tables at all
    for mods in ([ins("b1", 1, "mov")], [dele("b1", 0, 3)], [dele("b1", 1, 2)]):
        spec = text_layout("jcc:s0", funcs=False)
        spec["mods"] = copy.deepcopy(mods)
        out.append(("nofunc/%s" % mods_name(mods), spec))
    if tier == "thorough":
        # the same scenarios on an x86-64 PE module (no alignment table by default, no ELF symbol tables, no
        # attribute conversion rules): everything except the systematic pairs
        for sid, spec in list(out):
            if sid.startswith("syspairs/"):
                continue
            pe = copy.deepcopy(spec)
            pe["fmt"] = "pe"
            out.append(("pe/" + sid, pe))
    return out


ARM64_PATCHES = {"mov", "two", "label", "jcc_tmp", "ret", "icall", "byte", "quad", "selfloop", "trail_label", "trail_label_data",
                 "decline", "rawbytes", "string"}


def arm64_shapes(tier):
    """The x86-64 scenarios whose patches have an ARM64 rendering, on an ARM64 ELF module (fixed-width instructions:
    lengths are constants, gaps, data sizes, addresses and displacements stay symbolic)."""
    out = []
    for sid, spec in shapes("quick"):
        if sid.startswith(("newfunc/", "leadgap/")) and tier == "quick":
            continue
        ok = True
        for m in spec.get("mods", []):
            pn = m.get("patch")
            if pn is None:
                continue
            if pn not in ARM64_PATCHES and not pn.startswith(("jmp:", "call:", "dq:")):
                ok = False
        if not ok or m_has(spec, "insert_function"):
            continue
        # s0, s1, ... are register names on ARM64 ('bl s2' would name a register): the labels are renamed lab0, lab1, ...
        import json
        import re
        a = json.loads(re.sub(r"\bs(\d+[a-z]?)\b", r"lab\1", json.dumps(spec)))
        a["isa"] = "arm64"
        out.append(("arm64/" + re.sub(r"\bs(\d+[a-z]?)\b", r"lab\1", sid), a))
    if tier == "quick":
        out = [x for i, x in enumerate(out) if i % 3 == 0 or x[0].startswith(("arm64/callgraph", "arm64/mixed", "arm64/nolabel"))]
    return out


def m_has(spec, op):
    return any(m.get("op") == op for m in spec.get("mods", []))


def endlabel_next_proxy_shapes():
    """code inserted at the end of a block that has an end-of-block label (or a patch ending in a label), and the NEXT
    block deleted with retarget_to_proxy - C02 only (known finding)"""
    out = []
    for funcs in (True, False):
        for mods in ([ins("b1", 3, "mov"), dele("b2", 0, 2, proxy=True)], [ins("b0", 2, "mov"), dele("b1", 0, 3, proxy=True)],
                     [ins("b1", 3, "trail_label"), dele("b2", 0, 2, proxy=True)]):
            spec = text_layout("o", funcs=funcs)
            spec["sections"][0]["blocks"][0]["esyms"] = ["e0"]
            spec["mods"] = copy.deepcopy(mods)
            out.append(("endlabel-next-proxy/%s/%s" % ("funcs" if funcs else "nofuncs", mods_name(mods)), spec))
    return out


def cfi_layout(kind="one"):
    """CFI procedures over the text layout.
    one:  a single procedure over b0..b2 with state changes inside b1
    two:  procedure P over b0+b1 (ends at the end of b1), procedure Q over b2
    data: procedure over b0, data block b1, lone procedure over b2"""
    if kind == "same-offset":
        # procedure P ends and procedure Q starts at one and the same offset (inside b1, and at offset 0 of b2 for R)
        spec = text_layout("jcc:s0", annots=False)
        spec["cfi"] = [
            {"blk": "b0", "at": 0, "dirs": [(".cfi_startproc", [])]},
            {"blk": "b1", "at": 2, "dirs": [(".cfi_def_cfa_offset", [16]), (".cfi_endproc", []), (".cfi_startproc", []),
                                            (".cfi_personality", [0], "ext1"), (".cfi_def_cfa_offset", [8])]},
            {"blk": "b2", "at": 0, "dirs": [(".cfi_endproc", []), (".cfi_startproc", []), (".cfi_def_cfa_offset", [24])]},
            {"blk": "b2", "at": 2, "dirs": [(".cfi_endproc", [])]},
        ]
        return spec
    if kind == "then-plain":
        # a procedure over b0+b1 that ends exactly where b2 begins; b2 (another function) has no CFI at all
        spec = text_layout("jcc:s0", annots=False)
        spec["cfi"] = [
            {"blk": "b0", "at": 0, "dirs": [(".cfi_startproc", []), (".cfi_def_cfa_offset", [16])]},
            {"blk": "b1", "at": 3, "dirs": [(".cfi_def_cfa_offset", [8]), (".cfi_endproc", [])]},
        ]
        return spec
    if kind == "split":
        spec = mixed_layout()
        spec["annots"] = []
        spec["cfi"] = [
            {"blk": "b0", "at": 0, "dirs": [(".cfi_startproc", []), (".cfi_def_cfa_offset", [16])]},
            {"blk": "b2", "at": 1, "dirs": [(".cfi_remember_state", []), (".cfi_def_cfa_offset", [24])]},
            {"blk": "b2", "at": 2, "dirs": [(".cfi_restore_state", []), (".cfi_endproc", [])]},
        ]
        return spec
    if kind == "data":
        spec = mixed_layout()
        spec["annots"] = []
        spec["cfi"] = [
            {"blk": "b0", "at": 0, "dirs": [(".cfi_startproc", []), (".cfi_def_cfa_offset", [16])]},
            {"blk": "b0", "at": 2, "dirs": [(".cfi_endproc", [])]},
            {"blk": "b2", "at": 0, "dirs": [(".cfi_startproc", [])]},
            {"blk": "b2", "at": 1, "dirs": [(".cfi_remember_state", []), (".cfi_def_cfa_offset", [24])]},
            {"blk": "b2", "at": 2, "dirs": [(".cfi_restore_state", []), (".cfi_endproc", [])]},
        ]
        return spec
    spec = text_layout("jcc:s0", annots=False)
    if kind == "one":
        spec["cfi"] = [
            {"blk": "b0", "at": 0, "dirs": [(".cfi_startproc", []), (".cfi_personality", [0], "ext1"), (".cfi_lsda", [0], "s2")]},
            {"blk": "b0", "at": 1, "dirs": [(".cfi_def_cfa_offset", [16]), (".cfi_offset", [6, -16])]},
            {"blk": "b1", "at": 0, "dirs": [(".cfi_def_cfa_register", [6])]},
            {"blk": "b1", "at": 1, "dirs": [(".cfi_remember_state", []), (".cfi_def_cfa_offset", [32])]},
            {"blk": "b1", "at": 2, "dirs": [(".cfi_restore_state", [])]},
            {"blk": "b1", "at": 3, "dirs": [(".cfi_def_cfa_offset", [8])]},
            {"blk": "b2", "at": 2, "dirs": [(".cfi_endproc", [])]},
        ]
    else:
        spec["cfi"] = [
            {"blk": "b0", "at": 0, "dirs": [(".cfi_startproc", [])]},
            {"blk": "b0", "at": 2, "dirs": [(".cfi_def_cfa_offset", [16])]},
            {"blk": "b1", "at": 2, "dirs": [(".cfi_def_cfa_offset", [8])]},
            {"blk": "b1", "at": 3, "dirs": [(".cfi_def_cfa_offset", [24]), (".cfi_endproc", [])]},
            {"blk": "b2", "at": 0, "dirs": [(".cfi_startproc", []), (".cfi_def_cfa_offset", [16])]},
            {"blk": "b2", "at": 2, "dirs": [(".cfi_endproc", [])]},
        ]
    return spec


CFI_PATCH = "cfi:.cfi_adjust_cfa_offset 8;mov ecx, 1;.cfi_adjust_cfa_offset -8"


def cfi_shapes(tier):
    out = []
    text_mods = [[]]
    for j in range(4):
        text_mods.append([ins("b1", j, "mov")])
        text_mods.append([ins("b1", j, "cfi:.cfi_undefined 3")])
    text_mods += [[ins("b0", 0, "cfi:.cfi_undefined 3")], [ins("b0", 2, "label")], [ins("b2", 2, "cfi:.cfi_undefined 3")],
                  [ins("b2", 0, "mov")], [ins("b2", 2, "mov")],
                  [dele("b1", 0, 1)], [dele("b1", 1, 2)], [dele("b1", 2, 3)], [dele("b1", 0, 3)], [dele("b1", 0, 2)],
                  [dele("b0", 0, 2)], [dele("b2", 0, 2)], [dele("b0", 0, 2), dele("b1", 0, 3)],
                  [dele("b1", 0, 3), dele("b2", 0, 2)], [dele("b0", 0, 2, proxy=True)], [dele("b2", 0, 2, proxy=True)],
                  [rep("b1", 1, 2, "mov")], [rep("b1", 0, 3, "cfi:.cfi_undefined 3")],
                  [ins("b1", 1, "mov"), ins("b1", 3, "cfi:.cfi_undefined 3")],
                  [ins("b1", 0, "mov"), ins("b2", 0, "cfi:.cfi_undefined 3")],
                  [dele("b1", 0, 2), ins("b1", 3, "cfi:.cfi_undefined 3")],
                  [dele("b0", 0, 2), dele("b1", 0, 3), dele("b2", 0, 2)]]
    # labels between the directives of a patch (each label opens an empty block that the assembler merges away), and a
    # directive behind the last label of a patch (its block is empty and labelled)
    labelled = "cfi:.La:;.cfi_def_cfa_offset 32;.Lb:;.cfi_adjust_cfa_offset 8;.Lc:;.cfi_undefined 4"
    text_mods += [[ins("b1", 1, labelled)], [ins("b1", 0, labelled)],
                  [ins("b1", 1, "cfi:.cfi_adjust_cfa_offset 8;.Lr:;.cfi_adjust_cfa_offset -8")],
                  # a patch that ENDS in a label followed by a directive: the directive describes what follows the patch
                  [ins("b1", 1, "cfiraw:mov ecx, 1;.cfi_adjust_cfa_offset 8;jmp s0;.Lr:;.cfi_adjust_cfa_offset -8")],
                  [ins("b1", 1, "cfiraw:mov ecx, 1;.cfi_adjust_cfa_offset 8;mov ecx, 2;.Lr:;.cfi_adjust_cfa_offset -8")],
                  [ins("b1", 3, "cfiraw:mov ecx, 1;.cfi_adjust_cfa_offset 8;mov ecx, 2;.Lr:;.cfi_adjust_cfa_offset -8")],
                  # data behind the last instruction of the section's last procedure
                  [ins("b2", 2, "byte")], [ins("b2", 2, "trail_label_data")],
                  # a directive between a block-ending instruction and the label that ends the patch
                  [ins("b1", 1, "cfiraw:.cfi_remember_state;mov ecx, 1;.cfi_adjust_cfa_offset 8;jmp s0;.cfi_restore_state;.Lr:")],
                  [ins("b1", 1, "cfiraw:mov ecx, 1;.cfi_adjust_cfa_offset 8;jmp s0;.cfi_adjust_cfa_offset -8;.Lr:")]]
    for kind in ("one", "two", "same-offset"):
        for mods in text_mods:
            spec = cfi_layout(kind)
            spec["mods"] = copy.deepcopy(mods)
            out.append(("cfi-%s/%s" % (kind, mods_name(mods)), spec))
    for mods in ([], [ins("b2", 0, "cfi:.cfi_undefined 3")], [ins("b1", 3, "cfi:.cfi_undefined 3")], [ins("b2", 1, "cfi:.cfi_undefined 3")],
                 [ins("b2", 0, CFI_PATCH)], [ins("b2", 0, "mov")], [dele("b1", 2, 3), ins("b2", 0, "cfi:.cfi_undefined 3")]):
        spec = cfi_layout("then-plain")
        spec["mods"] = copy.deepcopy(mods)
        out.append(("cfi-then-plain/%s" % mods_name(mods), spec))
    data_mods = [[], [dele("b0", 0, 2)], [dele("b2", 0, 2)], [dele("b0", 0, 2, proxy=True)], [dele("b2", 0, 2, proxy=True)],
                 [dele("b0", 0, 2, proxy=True), dele("b2", 0, 2, proxy=True)], [dele("b2", 1, 2)], [dele("b1", 0, 2)],
                 [ins("b2", 2, "cfi:.cfi_undefined 3")], [ins("b2", 1, "mov")], [ins("b0", 2, "mov")],
                 [dele("b0", 0, 2), dele("b1", 0, 2)], [dele("b1", 0, 2), dele("b2", 0, 2)]]
    for mods in data_mods:
        spec = cfi_layout("data")
        spec["mods"] = copy.deepcopy(mods)
        out.append(("cfi-data/%s" % mods_name(mods), spec))
    for mods in data_mods:
        spec = cfi_layout("split")
        spec["mods"] = copy.deepcopy(mods)
        out.append(("cfi-split/%s" % mods_name(mods), spec))
    if tier == "thorough":
        # every non-overlapping pair of requests on the middle block, both registration orders, on every CFI layout of .text;
        # patches with their own directives take the place of the plain ones
        for kind in ("one", "two", "same-offset"):
            for mods in systematic_pairs():
                mods = copy.deepcopy(mods)
                for m in mods:
                    if m.get("patch") == "label":
                        m["patch"] = "cfi:.cfi_undefined 3"
                    elif m.get("patch") in ("ret", "call:s2", "jcc_tmp"):
                        m["patch"] = CFI_PATCH
                spec = cfi_layout(kind)
                spec["mods"] = mods
                out.append(("cfi-%s/sys/%s" % (kind, mods_name(mods)), spec))
    return out
