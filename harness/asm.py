"""C12 / C13 (Python half of the assembler): blocks, edges, labels, data
classification, symbolic operands; symbol discipline and chunked assembly.

LLVM MC (mcasm) parses the text and produces the event stream - that part is
FFI and concrete.  The Python half that turns events into GTIRB
(_SymbolCreator, _Streamer.*, Assembler.finalize and its clean-up passes) runs
under the engine with SYMBOLIC INSTRUCTION SIZES: _Streamer._append_data is
wrapped so that every chunk the streamer appends becomes a rope of a symbolic
length >= its real length.  Offsets of blocks, labels and expressions are then
z3 terms and the assertions hold for all instruction sizes.  In the concrete
replays nothing is wrapped and the bytes are additionally disassembled with
capstone (independent disassembler) and compared with the instructions
written.
"""
import copy

import gtirb

from symx import core, run, shims
from symx.core import And, Rope, rope_equal_check

A_ = gtirb.SymbolicExpression.Attribute

TARGETS = {
    "x64-intel": (gtirb.Module.ISA.X64, "intel"),
    "x64-att": (gtirb.Module.ISA.X64, "att"),
    "ia32": (gtirb.Module.ISA.IA32, "att"),
    "arm64": (gtirb.Module.ISA.ARM64, "att"),
    "mips32": (gtirb.Module.ISA.MIPS32, "att"),  # only in the temporary-prefix case of C13
}

TEXT = {
    "o": {"x64-intel": "mov eax, 1", "x64-att": "movl $1, %eax", "ia32": "movl $1, %eax", "arm64": "add x0, x0, #1",
          "mips32": "addiu $t0, $t0, 1"},
    "o2": {"x64-intel": "xor ebx, ebx", "x64-att": "xorl %ebx, %ebx", "ia32": "xorl %ebx, %ebx", "arm64": "mov x2, x3",
           "mips32": "move $t2, $t3"},
    "jmp": {"x64-intel": "jmp {0}", "x64-att": "jmp {0}", "ia32": "jmp {0}", "arm64": "b {0}"},
    "jcc": {"x64-intel": "jne {0}", "x64-att": "jne {0}", "ia32": "jne {0}", "arm64": "b.ne {0}",
            "mips32": "bne $t0, $t1, {0}"},
    "call": {"x64-intel": "call {0}", "x64-att": "call {0}", "ia32": "call {0}", "arm64": "bl {0}"},
    "ret": {"x64-intel": "ret", "x64-att": "ret", "ia32": "ret", "arm64": "ret"},
    "ijmp": {"x64-intel": "jmp rax", "x64-att": "jmp *%rax", "ia32": "jmp *%eax", "arm64": "br x1"},
    "icall": {"x64-intel": "call rax", "x64-att": "call *%rax", "ia32": "call *%eax", "arm64": "blr x1"},
    "lea": {"x64-intel": "lea rax, [rip+{0}]", "x64-att": "leaq {0}(%rip), %rax", "ia32": "movl ${0}, %eax", "arm64": "adrp x0, {0}"},
    # rip-relative operand followed by an immediate: the displacement is not the last field of the instruction
    "ripimm": {"x64-intel": "mov dword ptr [rip+{0}], 5", "x64-att": "movl $5, {0}(%rip)"},
    "ripimm8": {"x64-intel": "cmp byte ptr [rip+{0}+8], 1", "x64-att": "cmpb $1, {0}+8(%rip)"},
    # ARM64 relocation specifier, alone and combined with an addend
    "lo12": {"arm64": "add x1, x0, :lo12:{0}"},
    "lo12add": {"arm64": "ldr x2, [x0, :lo12:{0}+8]"},
    "align": {"*": ".balign {0}"},
    "byte": {"*": ".byte 7"},
    "word": {"x64-intel": ".quad {0}+8", "x64-att": ".quad {0}+8", "ia32": ".long {0}+8", "arm64": ".quad {0}+8"},
    "zero": {"*": ".zero 3"},
    "string": {"*": '.string "hi"'},
    "ascii": {"*": '.ascii "abc"'},
    "nul": {"*": '.ascii "\\0"'},
    "uleb": {"*": ".uleb128 300"},
}
MNEMONIC = {"o": {"mov", "add"}, "o2": {"xor", "mov"}, "jmp": {"jmp", "b"}, "jcc": {"jne", "b.ne"}, "call": {"call", "bl"},
            "ret": {"ret"}, "ijmp": {"jmp", "br"}, "icall": {"call", "blr"}, "lea": {"lea", "mov", "adrp"},
            "ripimm": {"mov"}, "ripimm8": {"cmp"}, "lo12": {"add"}, "lo12add": {"ldr"}}
TRANSFERS = ("jmp", "jcc", "call", "ret", "ijmp", "icall")
CHUNKS = {"string": 2}  # .string appends the characters and the terminating NUL separately
CODE = ("o", "o2", "lea", "ripimm", "ripimm8", "lo12", "lo12add") + TRANSFERS
DATA = ("byte", "word", "zero", "string", "uleb", "ascii", "nul")
TYPED = ("string", "uleb", "ascii", "nul")
BLOCK_TYPE = {"string": "string", "ascii": "ascii", "nul": "ascii", "uleb": "uleb128"}


def tok(kind, arg=None):
    return (kind, arg)


def render(prog, target):
    lines = []
    for kind, arg in prog:
        if kind == "label":
            lines.append("%s:" % arg)
        elif kind == "raw":
            lines.append(arg)
        else:
            t = TEXT[kind].get(target) or TEXT[kind]["*"]
            lines.append(t.format(arg))
    return "\n".join(lines) + "\n"


def install():
    out = shims.install_determinism()
    import gtirb_rewriting.assembler.assembler as AS
    AS.__dict__["len"] = shims.s_len
    out["assembler/assembler.py"] = ["len", "_Streamer._append_data wrapped: appended chunks get a symbolic length"]
    return out


class Recorder:
    """Wraps _Streamer._append_data.  Symbolic run: the chunk becomes a rope of symbolic length >= the real one.
    Concrete run: records only."""

    def __init__(self, eng):
        self.eng = eng
        self.chunks = []  # (source name, engine length, real bytes)

    def __enter__(self):
        import gtirb_rewriting.assembler.assembler as AS
        self.AS = AS
        self.orig = AS._Streamer._append_data
        rec = self

        def append(streamer, data, loc):
            k = len(rec.chunks)
            rec.eng.notes["chunks"] = rec.eng.notes.get("chunks", 0) + 1
            name = "c%d" % rec.eng.notes["chunks"]
            if rec.eng.sym:
                if bytes(data) == b"\x00":
                    n = 1  # the string terminator: the library itself accounts for it with a literal 1
                else:
                    n = rec.eng.int("n%d" % len(rec.eng.vars), len(data), None)
                rec.chunks.append((name, n, bytes(data)))
                return rec.orig(streamer, Rope.src(name, n), loc)
            rec.chunks.append((name, len(data), bytes(data)))
            return rec.orig(streamer, data, loc)

        AS._Streamer._append_data = append
        return self

    def __exit__(self, *exc):
        self.AS._Streamer._append_data = self.orig
        return False


# ---------------------------------------------------------------------------
# model of what the assembler must build from a token program
# ---------------------------------------------------------------------------
def model(prog, chunk_lens, executable, trivially_unreachable, module_symbols):
    """-> blocks [(start, size, kind, labels, tokens)], edges, label placement"""
    pos = 0
    ci = 0
    raw = []  # provisional blocks: dict(start, toks, labels)
    cur = {"start": 0, "toks": [], "labels": [], "len": 0}
    raw.append(cur)
    pending_edges = []  # (src raw idx, type, target label | None, cond, direct)
    falls = {}  # raw idx -> does control reach the next provisional block by fallthrough

    def new_block():
        nonlocal cur
        cur = {"start": pos, "toks": [], "labels": [], "len": 0}
        raw.append(cur)

    for kind, arg in prog:
        if kind == "label":
            falls[len(raw) - 1] = True  # emit_label: fallthrough edge current -> label block
            new_block()
            cur["labels"].append(arg)
            continue
        if kind == "raw":
            continue
        if kind == "align":
            # alignment applies to the start of a block: a non-empty current block is split (with a fallthrough); no bytes
            if cur["toks"]:
                falls[len(raw) - 1] = True
                new_block()
            cur["align"] = max(cur.get("align", 0), arg)
            continue
        n = 0
        for _ in range(CHUNKS.get(kind, 1)):
            n = n + chunk_lens[ci]
            ci += 1
        if kind == "nul" and not cur["toks"] and len(raw) >= 2 and raw[-2].get("type") == "ascii":
            # a lone NUL right behind an ASCII block terminates it: same block, now a string; the (empty) current block moves on
            raw[-2]["toks"].append((kind, arg, pos, n))
            raw[-2]["len"] = raw[-2]["len"] + n
            raw[-2]["type"] = "string"
            pos = pos + n
            cur["start"] = pos
            continue
        if kind in TYPED:
            # a value with an encoding sits in a block of its own: split (no fallthrough) before and after it
            falls[len(raw) - 1] = False
            new_block()
            cur["type"] = BLOCK_TYPE[kind]
        cur["toks"].append((kind, arg, pos, n))
        cur["len"] = cur["len"] + n
        pos = pos + n
        if kind in TYPED:
            falls[len(raw) - 1] = False
            new_block()
        if kind in TRANSFERS:
            i = len(raw) - 1
            if kind == "ret":
                pending_edges.append((i, "Return", None, False, True))
            elif kind in ("jmp", "jcc"):
                pending_edges.append((i, "Branch", arg, kind == "jcc", True))
            elif kind == "call":
                pending_edges.append((i, "Call", arg, False, True))
            elif kind == "ijmp":
                pending_edges.append((i, "Branch", None, False, False))
            else:
                pending_edges.append((i, "Call", None, False, False))
            falls[i] = kind in ("jcc", "call", "icall")
            new_block()
    total = pos
    # merge empty provisional blocks into the next non-empty one (labels and incoming edges move along)
    final = []
    remap = {}
    carry_labels = []
    carry_idx = []
    carry_align = 0
    for i, b in enumerate(raw):
        if not b["toks"]:
            carry_labels += b["labels"]
            carry_idx.append(i)
            carry_align = max(carry_align, b.get("align", 0))
            continue
        fb = {"start": b["start"], "size": b["len"], "labels": carry_labels + b["labels"], "toks": b["toks"], "raw": carry_idx + [i],
              "type": b.get("type"), "align": max(carry_align, b.get("align", 0))}
        carry_align = 0
        for j in fb["raw"]:
            remap[j] = len(final)
        final.append(fb)
        carry_labels, carry_idx = [], []
    trailing = {"labels": carry_labels, "raw": carry_idx, "align": carry_align} if carry_idx else None
    label_block = {}
    for k, fb in enumerate(final):
        for lb in fb["labels"]:
            label_block[lb] = k
    # edges between final blocks
    edges = set()
    for (i, typ, target, cond, direct) in pending_edges:
        src = remap[i]
        if typ == "Return" or target is None:
            edges.add((src, typ, "proxy", cond, direct))
        elif target in label_block:
            edges.add((src, typ, label_block[target], cond, direct))
        elif trailing and target in trailing["labels"]:
            edges.add((src, typ, "trailing", cond, direct))
        else:
            edges.add((src, typ, "mod:" + target, cond, direct))
    # fallthrough: from the provisional block that ends final block k into final block k+1
    for k in range(len(final) - 1):
        last_raw = final[k]["raw"][-1]
        # any chain of empty blocks between them passes the fallthrough on only if each link exists; links from empty blocks
        # always exist for labels (emit_label) and never after an unconditional transfer
        if falls.get(last_raw, False) and all(falls.get(j, False) for j in final[k + 1]["raw"][:-1]):
            edges.add((k, "Fallthrough", k + 1, False, True))
    trailing_reached = False
    if trailing and final:
        last_raw = final[-1]["raw"][-1]
        chain_ok = falls.get(last_raw, False) and all(falls.get(j, False) for j in trailing["raw"][:-1])
        trailing_reached = chain_ok or any(e[2] == "trailing" for e in edges)
        if chain_ok:
            edges.add((len(final) - 1, "Fallthrough", "trailing", False, True))
    # code / data classification: one forward pass, like the library; a block turned into data loses its outgoing fallthrough
    for k, fb in enumerate(final):
        has_code = any(t[0] in CODE for t in fb["toks"])
        incoming = {e[2] for e in edges if isinstance(e[2], int)}
        is_data = (not has_code) and (not executable or k != 0 or trivially_unreachable) and k not in incoming
        fb["kind"] = "data" if is_data else "code"
        if is_data:
            edges = {e for e in edges if not (e[0] == k and e[1] == "Fallthrough")}
    if trailing:
        trailing_reached = any(e[2] == "trailing" for e in edges)
    return final, edges, trailing, trailing_reached, total


# ---------------------------------------------------------------------------
def build_module(target, pie, fmt="elf"):
    isa, syntax = TARGETS[target]
    ir = gtirb.IR()
    m = gtirb.Module(name="m", isa=isa, file_format=gtirb.Module.FileFormat.ELF if fmt == "elf" else gtirb.Module.FileFormat.PE,
                     ir=ir, byte_order=gtirb.Module.ByteOrder.Big if target == "mips32" else gtirb.Module.ByteOrder.Little)
    from gtirb_rewriting import _auxdata
    _auxdata.binary_type.set(m, ["DYN"] if pie else ["EXEC"])
    s = gtirb.Section(name=".text", module=m, flags={gtirb.Section.Flag.Executable, gtirb.Section.Flag.Readable,
                                                     gtirb.Section.Flag.Loaded, gtirb.Section.Flag.Initialized})
    bi = gtirb.ByteInterval(contents=b"\x90" * 16, address=0x1000, section=s)
    fblk = gtirb.CodeBlock(offset=0, size=8, byte_interval=bi)
    dblk = gtirb.DataBlock(offset=8, size=8, byte_interval=bi)
    syms = {"func": gtirb.Symbol("func", payload=fblk, module=m),
            "ext": gtirb.Symbol("ext", payload=gtirb.ProxyBlock(module=m), module=m),
            "obj": gtirb.Symbol("obj", payload=dblk, module=m)}
    return m, syms


def h_assemble(eng, target, prog, pie, trivially_unreachable, split_at=None):
    from gtirb_rewriting.assembler import Assembler
    from gtirb_rewriting.assembly import X86Syntax

    m, msyms = build_module(target, pie)
    isa, syntax = TARGETS[target]
    xs = X86Syntax.INTEL if syntax == "intel" else X86Syntax.ATT
    asm = Assembler(m, temp_symbol_suffix="_7", trivially_unreachable=trivially_unreachable)
    with Recorder(eng) as rec:
        if split_at is None:
            asm.assemble(render(prog, target), xs)
        else:
            asm.assemble(render(prog[:split_at], target), xs)
            asm.assemble(render(prog[split_at:], target), xs)
        res = asm.finalize()
    sect = res.text_section
    lens = [n for (_, n, _) in rec.chunks]
    n_tok = sum(CHUNKS.get(t[0], 1) for t in prog if t[0] not in ("label", "raw", "align"))
    eng.check(len(lens) == n_tok, "the streamer appended %d chunks for %d instructions/directives" % (len(lens), n_tok))
    final, edges, trailing, trailing_reached, total = model(prog, lens, True, trivially_unreachable, msyms)
    # ---- bytes and tiling ---------------------------------------------------------------------
    if eng.sym:
        want = Rope()
        for (name, n, _) in rec.chunks:
            want = want + Rope.src(name, n)
        data = sect.data if isinstance(sect.data, Rope) else Rope.lit(bytes(sect.data))
        rope_equal_check(eng, data, want, "C12 section data")
    else:
        eng.check(bytes(sect.data) == b"".join(b for (_, _, b) in rec.chunks), "C12 section data differs from the appended chunks")
    blocks = list(sect.blocks)
    off = 0
    for i, b in enumerate(blocks):
        eng.check(b.offset == off, "C12 blocks do not tile the section data contiguously and in order")
        if i < len(blocks) - 1:
            eng.check(b.size > 0, "C12 an empty block that is not the last one")
        off = off + b.size
    eng.check(off == total, "C12 blocks do not cover exactly the section data")
    nonempty = [b for b in blocks if not eng.must(b.size == 0)]
    eng.check(len(nonempty) == len(final), "C12 %d non-empty blocks, the text has %d" % (len(nonempty), len(final)))
    for b, fb in zip(nonempty, final):
        eng.check(And(b.offset == fb["start"], b.size == fb["size"]), "C12 block boundaries differ from the text's")
        want_cls = gtirb.CodeBlock if fb["kind"] == "code" else gtirb.DataBlock
        eng.check(type(b) is want_cls, "C12 block at %s is a %s, the text makes it %s" % (fb["labels"], type(b).__name__, fb["kind"]),
                  labels=str(fb["labels"]))
        got_type = sect.block_types.get(b)
        got_type = getattr(got_type, "value", got_type)
        want_type = fb.get("type") if fb["kind"] == "data" else None
        eng.check(got_type == want_type, "C12/C13 block at %s carries the encoding %r, the text gives it %r" % (fb["labels"], got_type, want_type))
        eng.check(sect.alignment.get(b, 0) == fb.get("align", 0), "C12 block at %s has alignment %r, the text asks for %r" % (
            fb["labels"], sect.alignment.get(b), fb.get("align", 0)))
    has_trailing = len(blocks) > len(nonempty)
    # ---- labels -----------------------------------------------------------------------------------
    local = {s.name: s for s in res.symbols}
    idx_of = {id(b): k for k, b in enumerate(nonempty)}
    for k, fb in enumerate(final):
        for lb in fb["labels"]:
            name = lb + "_7" if lb.startswith(".L") else lb
            s = local.get(name)
            eng.check(s is not None, "C12/C13 label %s is not among the result's symbols (as %s)" % (lb, name))
            eng.check(s.referent is nonempty[k] and not s.at_end, "C12 label %s does not refer to the block starting at its position" % lb)
    if trailing:
        for lb in trailing["labels"]:
            name = lb + "_7" if lb.startswith(".L") else lb
            s = local.get(name)
            eng.check(s is not None, "C12/C13 trailing label %s missing" % lb)
            if trailing_reached or not final:
                eng.check(has_trailing and s.referent is blocks[-1], "C12 reachable trailing label is not on the empty last block")
            else:
                eng.check(s.referent is nonempty[-1] and s.at_end, "C12 unreachable trailing label is not an at_end label of the last block")
    elif has_trailing:
        eng.fail("C12 an empty trailing block although nothing refers to it")
    # ---- edges --------------------------------------------------------------------------------------
    got = set()
    for e in res.cfg:
        src = idx_of.get(id(e.source))
        eng.check(src is not None, "C12 edge from a block that is not a non-empty block of the result")
        t = e.target
        if isinstance(t, gtirb.ProxyBlock):
            names = [n for n, s in msyms.items() if s.referent is t]
            if names:
                tgt = "mod:" + names[0]
            else:
                eng.check(t in res.proxies, "C12 edge to a proxy that is not among the result's proxies")
                tgt = "proxy"
        elif id(t) in idx_of:
            tgt = idx_of[id(t)]
        elif has_trailing and t is blocks[-1]:
            tgt = "trailing"
        else:
            names = [n for n, s in msyms.items() if s.referent is t]
            tgt = "mod:" + names[0] if names else "?"
        got.add((src, e.label.type.name, tgt, bool(e.label.conditional), bool(e.label.direct)))
    eng.check(got == edges, "C12 edges differ: unexpected %s, missing %s" % (sorted(map(str, got - edges)), sorted(map(str, edges - got))))
    # each return / indirect transfer has its own fresh proxy
    proxy_targets = [e.target for e in res.cfg if isinstance(e.target, gtirb.ProxyBlock) and e.target in res.proxies]
    eng.check(len(proxy_targets) == len(set(map(id, proxy_targets))), "C12 two transfers share one proxy block")
    # ---- symbolic operands ------------------------------------------------------------------------------
    exprs = dict(sect.symbolic_expressions)
    sizes = dict(sect.symbolic_expression_sizes)
    want_n = 0
    ci = 0
    pos = 0
    for kind, arg in prog:
        if kind in ("label", "raw", "align"):
            continue
        n = 0
        real = 0
        for _ in range(CHUNKS.get(kind, 1)):
            n = n + lens[ci]
            real += len(rec.chunks[ci][2])
            ci += 1
        if kind in ("jmp", "jcc", "call", "lea", "word", "ripimm", "ripimm8", "lo12", "lo12add"):
            want_n += 1
            hits = [(k, e) for k, e in exprs.items() if eng.must(And(k >= pos, k < pos + real))]
            eng.check(len(hits) == 1, "C12 %s %s: %d symbolic expressions inside the instruction" % (kind, arg, len(hits)))
            k, e = hits[0]
            name = arg + "_7" if arg.startswith(".L") else arg
            want_sym = local.get(name) or msyms.get(arg)
            eng.check(isinstance(e, gtirb.SymAddrConst) and e.symbol is want_sym,
                      "C12/C13 operand of %s %s does not refer (by identity) to the expected symbol object" % (kind, arg))
            eng.check(e.offset == (8 if kind in ("word", "ripimm8", "lo12add") else 0), "C12 operand addend of %s %s is %s" % (kind, arg, e.offset))
            is_ext = arg == "ext"
            if isa in (gtirb.Module.ISA.X64, gtirb.Module.ISA.IA32):
                want_attrs = {A_.PLT} if (pie and is_ext and kind in ("jmp", "jcc", "call")) else set()
                eng.check(e.attributes == want_attrs, "C12 operand attributes of %s %s: %s, expected %s" % (
                    kind, arg, sorted(map(str, e.attributes)), sorted(map(str, want_attrs))))
            if kind in ("lo12", "lo12add"):
                eng.check(e.attributes == {A_.LO12}, "C12 operand attributes of %s %s: %s, expected LO12" % (
                    kind, arg, sorted(map(str, e.attributes))))
            elif target == "arm64":
                eng.check(e.attributes == set(), "C12 operand attributes of %s %s: %s, expected none" % (
                    kind, arg, sorted(map(str, e.attributes))))
            ok_sizes = (8, 4) if kind == "word" else ((1, 2, 3, 4, 8) if target == "arm64" else (1, 2, 4, 8))
            eng.check(sizes.get(k) in ok_sizes, "C12 recorded size of the operand of %s: %s" % (kind, sizes.get(k)))
            if kind == "word":
                eng.check(k == pos, "C12 data word expression is not at the word's offset")
        pos = pos + n
    eng.check(len(exprs) == want_n, "C12 %d symbolic expressions, the text has %d symbolic operands" % (len(exprs), want_n))
    # ---- independent disassembler (concrete replays) ---------------------------------------------------------
    if not eng.sym:
        _disassemble_check(eng, target, prog, rec, final)


def _disassemble_check(eng, target, prog, rec, final):
    import capstone
    isa, _ = TARGETS[target]
    md = {gtirb.Module.ISA.X64: capstone.Cs(capstone.CS_ARCH_X86, capstone.CS_MODE_64),
          gtirb.Module.ISA.IA32: capstone.Cs(capstone.CS_ARCH_X86, capstone.CS_MODE_32),
          gtirb.Module.ISA.ARM64: capstone.Cs(capstone.CS_ARCH_ARM64, capstone.CS_MODE_ARM)}[isa]
    ci = 0
    for kind, arg in prog:
        if kind in ("label", "raw", "align"):
            continue
        data = rec.chunks[ci][2]
        ci += CHUNKS.get(kind, 1)
        if kind not in CODE:
            continue
        dec = list(md.disasm(data, 0))
        eng.check(len(dec) == 1 and dec[0].size == len(data), "C12 the bytes of '%s' do not disassemble to one instruction" % kind)
        eng.check(dec[0].mnemonic in MNEMONIC[kind], "C12 '%s' disassembles to %s" % (kind, dec[0].mnemonic))


# ---------------------------------------------------------------------------
# C13: symbol discipline
# ---------------------------------------------------------------------------
def h_symbols(eng, target, case, fmt="elf"):
    from gtirb_rewriting.assembler import Assembler, MultipleDefinitionsError, UndefSymbolError
    from gtirb_rewriting.assembly import X86Syntax

    m, msyms = build_module(target, True, fmt)
    isa, syntax = TARGETS[target]
    xs = X86Syntax.INTEL if syntax == "intel" else X86Syntax.ATT
    msyms[".L_mod"] = gtirb.Symbol(".L_mod", payload=msyms["func"].referent, module=m)

    def run_prog(prog, suffix="_1", allow_undef=False, chunks=None):
        a = Assembler(m, temp_symbol_suffix=suffix, allow_undef_symbols=allow_undef)
        with Recorder(eng):
            for part in (chunks or [prog]):
                a.assemble(render(part, target), xs)
            return a.finalize()

    if case == "undef_refused":
        try:
            run_prog([tok("o"), tok("call", "nosuch")])
            eng.fail("C13 reference to an unknown name was accepted")
        except UndefSymbolError:
            eng.ok()
    elif case == "undef_allowed":
        res = run_prog([tok("call", "nosuch"), tok("o"), tok("jmp", "nosuch"), tok("lea", "other")], allow_undef=True)
        names = sorted(s.name for s in res.symbols)
        eng.check(names == ["nosuch", "other"], "C13 undefined names created symbols %s" % names)
        for s in res.symbols:
            eng.check(isinstance(s.referent, gtirb.ProxyBlock) and s.referent in res.proxies, "C13 undefined symbol is not proxy-backed")
        es = [e for e in res.text_section.symbolic_expressions.values()]
        nos = [e.symbol for e in es if e.symbol.name == "nosuch"]
        eng.check(len(nos) == 2 and nos[0] is nos[1], "C13 two references to one unknown name did not share one symbol")
    elif case == "undef_allowed_temp":
        # an unknown temporary-looking name: still one proxy-backed symbol per name, shared by all references and listed
        res = run_prog([tok("call", ".Lnosuch"), tok("o"), tok("jmp", ".Lnosuch"), tok("jcc", ".Lnosuch")], allow_undef=True)
        eng.check(len(res.symbols) == 1, "C13 one unknown temporary name created symbols %s" % sorted(s.name for s in res.symbols))
        es = [e for e in res.text_section.symbolic_expressions.values()]
        eng.check(len(es) == 3 and all(e.symbol is es[0].symbol for e in es),
                  "C13 references to one unknown temporary name did not share one symbol")
        eng.check(all(any(e.symbol is s2 for s2 in res.symbols) for e in es), "C13 an operand refers to a symbol missing from the result")
        for s2 in res.symbols:
            eng.check(isinstance(s2.referent, gtirb.ProxyBlock) and s2.referent in res.proxies, "C13 undefined symbol is not proxy-backed")
    elif case == "module_binds":
        res = run_prog([tok("call", "func"), tok("o"), tok("lea", "obj"), tok("jmp", "ext"), tok("o"), tok("jmp", ".L_mod")])
        eng.check(not res.symbols, "C13 names of module symbols created new symbols: %s" % [s.name for s in res.symbols])
        got = [e.symbol for _, e in sorted(res.text_section.symbolic_expressions.items(), key=lambda kv: kv[0])]
        want = [msyms["func"], msyms["obj"], msyms["ext"], msyms[".L_mod"]]
        eng.check(len(got) == 4 and all(g is w for g, w in zip(got, want)), "C13 a module name did not bind to the module's symbol object")
    elif case.startswith("redefine"):
        name = {"redefine_global": "func", "redefine_temp": ".L_mod", "redefine_own": "mine", "redefine_set": "func"}[case]
        prog = [tok("o"), tok("label", name), tok("o")]
        if case == "redefine_own":
            prog = [tok("label", "mine"), tok("o"), tok("label", "mine"), tok("o")]
        if case == "redefine_set":
            prog = [tok("o"), tok("raw", ".set func, 8"), tok("o")]
        try:
            run_prog(prog)
            eng.fail("C13 defining existing name %s was accepted" % name)
        except MultipleDefinitionsError:
            eng.ok()
    elif case == "temp_suffix":
        prog = [tok("label", ".Lloop"), tok("o"), tok("jcc", ".Lloop"), tok("raw", ".set .L_k, 8"), tok("label", "glob"), tok("o")]
        r1 = run_prog(prog, "_1")
        for s in r1.symbols:
            m.symbols.add(s)  # as insert() does
        prog2 = [p for p in prog if p != tok("label", "glob")]
        r2 = run_prog(prog2, "_2")
        n1 = sorted(s.name for s in r1.symbols)
        n2 = sorted(s.name for s in r2.symbols)
        eng.check(n1 == sorted([".Lloop_1", ".L_k_1", "glob"]), "C13 temporary labels of the first copy: %s" % n1)
        eng.check(n2 == sorted([".Lloop_2", ".L_k_2"]), "C13 temporary labels of the second copy: %s" % n2)
        e2 = list(r2.text_section.symbolic_expressions.values())
        eng.check(len(e2) == 1 and e2[0].symbol in r2.symbols, "C13 the second copy's branch captured another copy's label")
        eng.check(not (set(n1) & set(n2)), "C13 two copies produced symbols with one name")
    elif case == "context_temp_label":
        # the route patches take: InsertionContext.temporary_label() builds the name from the ABI's temporary prefix, and the
        # assembler must recognise exactly that prefix as temporary for the module's ISA and file format
        from gtirb_rewriting import InsertionContext
        ictx = InsertionContext(m, None, msyms["func"].referent, 0)
        name = ictx.temporary_label("skip")
        prog = [tok("o"), tok("jcc", name), tok("o2"), tok("label", name), tok("o")]
        r1 = run_prog(prog, "_1")
        for s in r1.symbols:
            m.symbols.add(s)
        r2 = run_prog(prog, "_2")
        n1 = sorted(s.name for s in r1.symbols)
        n2 = sorted(s.name for s in r2.symbols)
        eng.check(n1 == [name + "_1"] and n2 == [name + "_2"],
                  "C13 a label from InsertionContext.temporary_label() did not receive the caller's suffix: %s / %s" % (n1, n2))
        e2 = list(r2.text_section.symbolic_expressions.values())
        eng.check(len(e2) == 1 and e2[0].symbol in r2.symbols, "C13 the second copy's branch captured another copy's label")
    elif case == "several_contexts":
        # the caller that hands out the suffixes is RewritingContext: the same patch inserted by several contexts (several
        # passes over one module) must not produce two symbols with one name, nor may a copy capture another copy's label
        from gtirb_rewriting import Constraints, InsertionContext, Patch, RewritingContext
        blk = msyms["func"].referent

        def body(ictx):
            name = ictx.temporary_label("skip")
            return render([tok("o"), tok("jcc", name), tok("o2"), tok("label", name), tok("o")], target)
        patch = Patch.from_function(body, Constraints(x86_syntax=xs))
        rounds = eng.choose("contexts", [2, 3, 6])  # six contexts: suffixes pass from one digit to two
        for _ in range(rounds):
            ctx = RewritingContext(m, [])
            ctx.insert_at(sorted(m.code_blocks, key=lambda b: b.address)[0], 0, patch)
            ctx.insert_at(sorted(m.code_blocks, key=lambda b: b.address)[0], 0, patch)
            ctx.apply()
        names = sorted(s.name for s in m.symbols)
        dup = sorted({n for n in names if names.count(n) > 1})
        eng.check(not dup, "C13 the same patch inserted by %d contexts left several symbols with one name: %s" % (rounds, dup))
        temps = [s for s in m.symbols if "skip" in s.name]
        eng.check(len(temps) == 2 * rounds, "C13 %d copies of the patch left %d temporary labels" % (2 * rounds, len(temps)))
        used = {}
        for bi_ in m.byte_intervals:
            for off_, e in bi_.symbolic_expressions.items():
                if "skip" in e.symbol.name:
                    used[e.symbol.name] = used.get(e.symbol.name, 0) + 1
        eng.check(len(used) == 2 * rounds and all(v == 1 for v in used.values()),
                  "C13 the branches of the copies do not each name their own label: %r" % (used,))
    elif case == "reuse_after_finalize":
        # an Assembler may be used again after finalize(): the second round starts from a clean state, i.e. it behaves like a
        # fresh Assembler, and the result already handed out is not touched
        prog = [tok("label", ".Lloop"), tok("o"), tok("jcc", ".Lloop"), tok("label", "mine"), tok("call", "func"), tok("o2")]
        a = Assembler(m, temp_symbol_suffix="_1", allow_undef_symbols=False)
        with Recorder(eng):
            a.assemble(render(prog, target), xs)
            r1 = a.finalize()
        before = _summary(eng, r1) if not eng.sym else None
        nsym1 = sorted(s.name for s in r1.symbols)
        with Recorder(eng):
            a.assemble(render(prog, target), xs)
            r2 = a.finalize()
        fresh = run_prog(prog, "_1")
        eng.check(sorted(s.name for s in r2.symbols) == nsym1 and sorted(s.name for s in fresh.symbols) == nsym1,
                  "C13 second use of an Assembler after finalize(): symbols %s, a fresh Assembler gives %s" % (
                      sorted(s.name for s in r2.symbols), sorted(s.name for s in fresh.symbols)))
        eng.check(_summary(eng, r2) == _summary(eng, fresh) if not eng.sym else _summary_equal(eng, r2, fresh),
                  "C13 second use of an Assembler after finalize() differs from a fresh Assembler")
        eng.check(sorted(s.name for s in r1.symbols) == nsym1 and (eng.sym or _summary(eng, r1) == before),
                  "C13 a result already returned by finalize() was changed by later use of the Assembler")
        eng.check(not any(s2 in r2.symbols for s2 in r1.symbols), "C13 the second result shares symbol objects with the first")
        try:
            with Recorder(eng):
                a.assemble(render([tok("o"), tok("jmp", "mine")], target), xs)
                a.finalize()
            eng.fail("C13 a name defined only in an earlier, finalized round was accepted as known")
        except UndefSymbolError:
            eng.ok()
    elif case == "chunked_set":
        # an assigned temporary symbol defined in one chunk and used as an operand in a later one
        use = {"x64-intel": "mov eax, .L_k", "x64-att": "movl $.L_k, %eax", "ia32": "movl $.L_k, %eax", "arm64": "mov x0, #.L_k"}[target]
        prog = [tok("o"), tok("raw", ".set .L_k, 8"), tok("o2"), tok("raw", use), tok("o")]
        whole = run_prog(prog)
        cut = eng.choose("cut", list(range(1, len(prog))))
        parts = run_prog(prog, chunks=[prog[:cut], prog[cut:]])
        eng.check(_summary(eng, whole) == _summary(eng, parts) if not eng.sym else _summary_equal(eng, whole, parts),
                  "C13 assembling in two chunks (cut at %d) differs from assembling the concatenation when a chunk uses a symbol "
                  "assigned (.set) in an earlier chunk" % cut, finding="C13-assigned-symbol-across-chunks" if 2 <= cut <= 3 else None)
    elif case == "chunked":
        prog = [tok("label", "a"), tok("o"), tok("jcc", "a"), tok("o2"), tok("label", ".Lb"), tok("call", "func"), tok("jmp", ".Lb"), tok("byte")]
        whole = run_prog(prog)
        cut = eng.choose("cut", list(range(1, len(prog))))
        parts = run_prog(prog, chunks=[prog[:cut], prog[cut:]])
        eng.check(_summary(eng, whole) == _summary(eng, parts) if not eng.sym else _summary_equal(eng, whole, parts),
                  "C13 assembling in two chunks (cut at %d) differs from assembling the concatenation" % cut)
    else:
        raise KeyError(case)


def _summary(eng, res):
    sect = res.text_section
    blocks = [(b.offset, b.size, type(b).__name__) for b in sect.blocks]
    idx = {id(b): i for i, b in enumerate(sect.blocks)}
    syms = sorted((s.name, idx.get(id(s.referent), "proxy"), s.at_end) for s in res.symbols)
    edges = sorted((idx.get(id(e.source)), e.label.type.name, idx.get(id(e.target), "x"), bool(e.label.conditional), bool(e.label.direct))
                   for e in res.cfg)
    exprs = sorted((k, e.symbol.name, e.offset) for k, e in sect.symbolic_expressions.items())
    return (bytes(sect.data), blocks, syms, [str(e) for e in edges], exprs)


def _summary_equal(eng, a, b):
    """symbolic run: chunk lengths of the two assemblies are different variables, so compare structure only"""
    def shape(res):
        sect = res.text_section
        idx = {id(x): i for i, x in enumerate(sect.blocks)}
        return (len(sect.blocks), [type(x).__name__ for x in sect.blocks],
                sorted((s.name, idx.get(id(s.referent), "proxy"), s.at_end) for s in res.symbols),
                sorted(str((idx.get(id(e.source)), e.label.type.name, idx.get(id(e.target), "x"), bool(e.label.conditional)))
                       for e in res.cfg),
                sorted(e.symbol.name for e in sect.symbolic_expressions.values()))
    return shape(a) == shape(b)


# ---------------------------------------------------------------------------
PROGRAMS = {
    "straight": [tok("o"), tok("o2"), tok("o")],
    "jmp-local": [tok("o"), tok("jmp", "l1"), tok("o"), tok("label", "l1"), tok("o2")],
    "jcc-back": [tok("label", "top"), tok("o"), tok("jcc", "top"), tok("o2"), tok("ret")],
    "calls": [tok("call", "func"), tok("o"), tok("call", "ext"), tok("o2"), tok("icall"), tok("o")],
    "jmp-ext": [tok("o"), tok("jcc", "ext"), tok("o2"), tok("jmp", "ext")],
    "rets": [tok("o"), tok("ret"), tok("o2"), tok("ret"), tok("label", "after"), tok("o"), tok("ret")],
    "indirect": [tok("o"), tok("ijmp"), tok("o"), tok("icall"), tok("ijmp")],
    "labels": [tok("label", "a"), tok("label", "b"), tok("o"), tok("label", "c"), tok("o2"), tok("label", "end")],
    "trailing-unreach": [tok("o"), tok("ret"), tok("label", "end")],
    "trailing-reach": [tok("o"), tok("jmp", "end"), tok("label", "end")],
    "data-after-ret": [tok("o"), tok("ret"), tok("label", "tbl"), tok("byte"), tok("word", "obj"), tok("zero")],
    "data-after-jmp": [tok("jmp", "func"), tok("byte"), tok("zero"), tok("label", "d2"), tok("word", "func")],
    "data-first": [tok("byte"), tok("byte"), tok("label", "x"), tok("o")],
    "data-target": [tok("o"), tok("jmp", "d"), tok("label", "d"), tok("byte"), tok("byte")],
    "data-fallthrough": [tok("o"), tok("label", "d"), tok("byte"), tok("o2")],
    "mixed": [tok("o"), tok("byte"), tok("o2"), tok("ret"), tok("byte"), tok("label", "q"), tok("zero")],
    "lea-word": [tok("lea", "obj"), tok("o"), tok("lea", "ext"), tok("ret"), tok("word", "ext")],
    "string-after-code": [tok("o"), tok("string")],
    "typed-mid": [tok("o"), tok("string"), tok("label", "x"), tok("o2"), tok("string"), tok("byte"), tok("o")],
    "typed-after-ret": [tok("o"), tok("ret"), tok("label", "s"), tok("string"), tok("string"), tok("label", "t"), tok("byte")],
    "rip-imm": [tok("ripimm", "obj"), tok("o"), tok("ripimm8", "ext"), tok("ripimm", "ext"), tok("ripimm8", "obj"), tok("ret")],
    "ascii-nul": [tok("o"), tok("ret"), tok("ascii"), tok("nul"), tok("label", "s2"), tok("ascii"), tok("byte"), tok("nul"), tok("string")],
    "temp": [tok("label", ".Lt"), tok("o"), tok("jcc", ".Lt"), tok("jmp", ".Lu"), tok("label", ".Lu"), tok("o")],
    # alignment directives: after code, after a byte-only block that is code because control reaches it, in unreachable data,
    # at the very start, twice in a row, and behind a transfer
    "align-after-code": [tok("o"), tok("align", 4), tok("o2"), tok("align", 8), tok("label", "x"), tok("ret")],
    "align-bytes-reached": [tok("call", "func"), tok("byte"), tok("align", 4), tok("byte"), tok("label", "lbl"), tok("ret")],
    "align-data": [tok("o"), tok("ret"), tok("byte"), tok("align", 8), tok("byte"), tok("label", "d"), tok("word", "obj")],
    "align-first": [tok("align", 16), tok("o"), tok("jmp", "func"), tok("align", 4), tok("align", 8), tok("o2")],
    # two alignments at one place: the place has to satisfy both, i.e. the stronger one
    "align-twice": [tok("o"), tok("align", 16), tok("align", 4), tok("o2"), tok("ret")],
    # two labels at one position: a conditional jump to the first one; the pair in front of unreachable data; at the very end
    "jcc-two-labels": [tok("label", "top"), tok("label", "again"), tok("o"), tok("jcc", "top"), tok("jcc", "again"), tok("ret")],
    "two-labels-data": [tok("o"), tok("ret"), tok("label", "a"), tok("label", "b"), tok("byte"), tok("byte")],
    "two-labels-end": [tok("o"), tok("ret"), tok("label", "a"), tok("label", "b")],
    # an empty string literal emits no bytes and must leave no trace
    "empty-ascii": [tok("o"), tok("raw", '.ascii ""'), tok("o2"), tok("ret"), tok("raw", '.ascii ""'), tok("byte")],
    "arm-reloc": [tok("lo12", "obj"), tok("o"), tok("lo12add", "obj"), tok("lea", "obj"), tok("lo12add", "ext"), tok("lo12", "ext"), tok("ret")],
}


def generated_programs():
    """Every sequence of three instructions/directives from the vocabulary, with a label in front, labels between and at
    the end, and transfer targets cycling over own labels, a module function and an external symbol (thorough tier)."""
    import itertools
    kinds = ["o", "jmp", "jcc", "call", "ret", "icall", "ijmp", "byte", "word"]
    targets = ["l0", "end", "ext", "func", "l1"]
    out = {}
    n = 0
    for combo in itertools.product(kinds, repeat=3):
        prog = [tok("label", "l0")]
        for i, k in enumerate(combo):
            if i == 1:
                prog.append(tok("label", "l1"))
            if k in ("jmp", "jcc", "call"):
                prog.append(tok(k, targets[n % len(targets)]))
                n += 1
            elif k == "word":
                prog.append(tok(k, ["obj", "l0", "ext"][n % 3]))
                n += 1
            else:
                prog.append(tok(k))
        prog.append(tok("label", "end"))
        out["gen-" + "-".join(combo)] = prog
    return out


def classify(rec):
    return "violation"


def make_check_C12(tier):
    chk = run.Check("C12", tier)
    chk.install_shims = install
    chk.classify_exception = classify
    targets = ["x64-intel", "x64-att", "arm64"] if tier == "quick" else [t for t in TARGETS if t != "mips32"]
    if tier == "thorough":
        for target in ("x64-intel", "arm64"):
            for pname, prog in generated_programs().items():
                for tu in (False, True):
                    chk.add("asm/%s/%s/pie/%s" % (target, pname, "unreach" if tu else "reach"), h_assemble,
                            params=dict(target=target, prog=prog, pie=True, trivially_unreachable=tu), timeout=900)
    for target in targets:
        for pname, prog in PROGRAMS.items():
            if target == "arm64" and pname in ("lea-word",):
                continue
            if pname == "rip-imm" and not target.startswith("x64"):
                continue
            if pname == "arm-reloc" and target != "arm64":
                continue
            for pie in ((True,) if tier == "quick" and pname not in ("jmp-ext", "calls") else (True, False)):
                for tu in (False, True):
                    chk.add("asm/%s/%s/%s/%s" % (target, pname, "pie" if pie else "nopie", "unreach" if tu else "reach"), h_assemble,
                            params=dict(target=target, prog=prog, pie=pie, trivially_unreachable=tu), timeout=900)
    chk.bounds = {
        "claimed": "the PYTHON HALF of the assembler (_SymbolCreator, _Streamer callbacks, finalize and its three clean-up passes). "
                   "'The bytes disassemble to the instructions written' is decided only on the concrete replays (capstone), i.e. "
                   "witness-level: LLVM MC is FFI",
        "programs": "%d token programs over ordinary instructions, direct/conditional/indirect jumps, direct/indirect calls, returns, "
                    "labels (several per position, trailing, temporary), .byte/.quad/.long/.zero/.string/.uleb128, symbolic operands "
                    "to module code/data/proxy symbols; x86-64 Intel and AT&T, ARM64 (thorough: IA32); ELF PIE / non-PIE; "
                    "trivially_unreachable on/off" % len(PROGRAMS),
        "symbolic": "the length of every chunk the streamer appends (>= its real length): block offsets/sizes, label and expression "
                    "positions are z3 terms",
        "not covered": "section switches, .align, CFI directives inside assembled text (CFI is covered through the rewrite harness), "
                       "MIPS32 delay slots, PE",
    }
    chk.assumptions = [
        "_Streamer._append_data is wrapped in the symbolic run (chunk -> rope of symbolic length); `len` shim in assembler.py; "
        "the concrete replays run the unwrapped assembler",
        "the event stream (which callbacks, which fixups) is whatever LLVM MC produces for the concrete text",
        "expected operand attributes: x86 ELF PIE branch/call to a proxy-backed symbol carries PLT, everything else none",
    ]
    return chk


def make_check_C13(tier):
    chk = run.Check("C13", tier)
    chk.install_shims = install
    chk.classify_exception = classify
    for target in (["x64-intel", "arm64"] if tier == "quick" else [t for t in TARGETS if t != "mips32"]):
        for case in ("undef_refused", "undef_allowed", "undef_allowed_temp", "module_binds", "redefine_global", "redefine_temp", "redefine_own", "redefine_set",
                     "temp_suffix", "chunked"):
            chk.add("symbols/%s/%s" % (target, case), h_symbols, params=dict(target=target, case=case), timeout=900)
        chk.add("symbols/%s/chunked_set" % target, h_symbols, params=dict(target=target, case="chunked_set"), timeout=900)
        chk.add("symbols/%s/reuse_after_finalize" % target, h_symbols, params=dict(target=target, case="reuse_after_finalize"), timeout=900)
        for pname in ("jcc-back", "temp", "data-after-ret", "calls", "ascii-nul"):
            prog = PROGRAMS[pname]
            for cut in range(1, len(prog)):
                # a chunk must not refer to a label defined in a later chunk
                later = {a for (k, a) in prog[cut:] if k == "label"}
                if any(k in ("jmp", "jcc", "call", "lea", "word") and a in later for (k, a) in prog[:cut]):
                    continue
                chk.add("chunks/%s/%s/cut%d" % (target, pname, cut), h_assemble,
                        params=dict(target=target, prog=prog, pie=True, trivially_unreachable=False, split_at=cut), timeout=900)
    for target, fmt in (("x64-att", "elf"), ("x64-att", "pe"), ("arm64", "elf")):
        chk.add("symbols/%s-%s/several_contexts" % (target, fmt), h_symbols,
                params=dict(target=target, case="several_contexts", fmt=fmt), timeout=900)
    for target, fmt in (("x64-intel", "elf"), ("x64-att", "pe"), ("ia32", "pe"), ("arm64", "elf"), ("mips32", "elf")):
        chk.add("symbols/%s-%s/context_temp_label" % (target, fmt), h_symbols,
                params=dict(target=target, case="context_temp_label", fmt=fmt), timeout=900)
    chk.bounds = {
        "temporary prefix": "InsertionContext.temporary_label() names on x86-64 ELF, x86-64 PE, IA32 PE, ARM64 ELF, MIPS32 ELF, two copies each",
        "several contexts": "one patch with an InsertionContext.temporary_label() label inserted twice by each of 2-3 RewritingContexts",
        "assembler reuse": "assemble/finalize twice on one Assembler object compared with a fresh Assembler",
        "cases": "unknown name refused / allowed (one proxy-backed symbol per name); module names bind to the module's symbol objects "
                 "(code, data, proxy, a temporary-looking module name); redefinition of a module name, of a temporary-looking module "
                 "name, of an own label and via .set; temporary labels and temporary assigned symbols receive the suffix, two copies "
                 "never share a name nor capture each other's label; chunked assembly at every legal cut equals the whole text "
                 "(checked against the same model as C12, with symbolic instruction sizes)",
        "not covered": "LLVM's own decision which names are temporary (FFI); more than two chunks",
    }
    chk.assumptions = ["as C12"]
    return chk
