"""C07: each registered insertion lands exactly once, exactly where asked.

Real code: scopes.py (all scope classes, _potential_offsets_in_block,
pattern_match), RewritingContext.{register_insert, insert_at, apply,
_apply_modifications}, _ModificationStore, passes.PassManager.run,
utils._nonterminator_instructions.  In the symbolic run the instruction
decoder is a stub that reports the scenario's atoms with their symbolic sizes;
the concrete replays use the real capstone decoder on real bytes.
"""
import copy
import re

import gtirb

from harness import rewrite, rewrite_shapes, srh
from oracle import listing as L
from symx import core, run
from symx.core import And


class StubInsn:
    def __init__(self, address, size, kind):
        self.address = address
        self.size = size
        self.mnemonic = kind
        self.op_str = ""
        self.kind = kind

    def group(self, g):
        import capstone
        if g == capstone.CS_GRP_JUMP:
            return self.kind in ("jmp", "jcc", "ijmp")
        if g == capstone.CS_GRP_CALL:
            return self.kind in ("call", "icall", "rcall")
        if g == capstone.CS_GRP_RET:
            return self.kind == "ret"
        return False


class StubDecoder:
    """get_instructions(block) -> the scenario's atoms of that (original) block"""

    def __init__(self, sc):
        self.sc = sc

    def get_instructions(self, block):
        bid = next(k for k, v in self.sc.blocks.items() if v is block)
        addr = block.address
        out = []
        for a in self.sc.atoms[bid]:
            out.append(StubInsn(addr, a.length, a.kind))
            addr = addr + a.length
        return iter(out)


# ---------------------------------------------------------------------------
# which blocks a scope designates, and at which atom boundary (independent of the library)
# ---------------------------------------------------------------------------
def function_of(sc, bid):
    return sc.bspec[bid].get("func")


def function_name(sc, fname):
    bids = [b for b, s in sc.bspec.items() if s.get("func") == fname]
    entries = [b for b in bids if sc.bspec[b].get("entry")] or bids[:1]
    return (sc.bspec[entries[0]].get("syms") or ["fn_" + fname])[0]


def name_matches(sc, fname, patterns):
    name = function_name(sc, fname)
    for p in patterns:
        if p == "<main>":
            if name == "main":
                return True
        elif p == "<entry>":
            ep = sc.spec.get("entry_point")
            bids = [b for b, s in sc.bspec.items() if s.get("func") == fname]
            entries = [b for b in bids if sc.bspec[b].get("entry")] or bids[:1]
            if ep in entries:
                return True
        elif p.startswith("re:"):
            if re.fullmatch(p[3:], name):
                return True
        elif p == name:
            return True
    return False


def block_order(sc):
    return [b["id"] for s in sc.spec["sections"] for b in s["blocks"]]


def has_terminator(sc, bid):
    """A block has a terminator iff it has a non-fallthrough outgoing edge (rule of _nonterminator_instructions)."""
    return sc.atoms[bid][-1].kind in ("jmp", "jcc", "call", "icall", "ijmp", "ret", "sys", "rcall")


def exit_blocks(sc, fname):
    bids = [b for b, s in sc.bspec.items() if s.get("func") == fname]
    out = []
    for (src, kind, dst, cond, direct) in sc.model.block_edges():
        if src not in bids:
            continue
        if sc.spec.get("unlabelled_ijmp") and kind == "branch" and dst is None:
            continue  # gtirb_functions' definition of an exit block ignores edges without a label
        if kind == "return" or (kind != "call" and dst not in bids):
            if src not in out:
                out.append(src)
    return out


def designated(sc, md):
    """[(block id, atom boundary)] in address order"""
    order = block_order(sc)
    code = [b for b in order if sc.bspec[b]["kind"] == "code"]
    have_funcs = bool(sc.func_uuids)
    if md["kind"] == "all_blocks":
        blocks = []
        for b in code:
            f = function_of(sc, b)
            if f is None or md.get("exclude") is None or not have_funcs or not name_matches(sc, f, md["exclude"]):
                blocks.append(b)
    elif md["kind"] == "all_functions":
        blocks = []
        for f in sc.func_uuids:
            if md.get("functions") is not None and not name_matches(sc, f, md["functions"]):
                continue
            bids = [b for b, s in sc.bspec.items() if s.get("func") == f]
            if md["fpos"] == "ENTRY":
                blocks += [b for b in bids if sc.bspec[b].get("entry")] or bids[:1]
            else:
                blocks += exit_blocks(sc, f)
        blocks = [b for b in code if b in blocks]
    else:
        blocks = [md["blk"]]
    out = []
    for b in blocks:
        n = len(sc.atoms[b])
        if md["pos"] in ("ENTRY", "ANYWHERE"):
            at = 0
        else:
            at = n - 1 if has_terminator(sc, b) else n
        out.append((b, at))
    return out


def final_model_scopes(sc):
    """Listing model with scope registrations expanded (registration order at equal locations)."""
    eng = sc.eng
    ls = L.Listing.from_scenario(sc)
    by_patch = {}
    for patch, res in sc.patch_log:
        by_patch.setdefault(id(patch), []).append(res)
    expected_contexts = []
    for mi, md in enumerate(sc.spec.get("mods", [])):
        uid = md.get("uid", mi)
        if md["op"] == "scope":
            targets = designated(sc, md)
            results = by_patch.get(id(sc.mod_patches[mi]), [])
            eng.check(len(results) == len(targets), "C07 registration %d was applied %d times, its scope designates %d blocks" % (
                mi, len(results), len(targets)), registration=mi)
            for (bid, at), res in zip(targets, results):
                func = ls.block_func.get(bid)
                items = L.patch_items(md["patch"], uid, res.text_section.data, bid, func)
                ls.insert(bid, at, items)
                expected_contexts.append((uid, bid, at))
        elif md["op"] == "insert_function":
            results = by_patch.get(id(sc.mod_patches[mi]), [])
            eng.check(len(results) == 1, "C07 the body of an inserted function was assembled %d times" % len(results))
            items = L.patch_items(md["patch"], uid, results[0].text_section.data, None, None)
            ls.append_function(".text", md["name"], items)
        elif md["op"] == "insert":
            results = by_patch.get(id(sc.mod_patches[mi]), [])
            eng.check(len(results) == 1, "C07 insert_at patch applied %d times" % len(results))
            items = L.patch_items(md["patch"], uid, results[0].text_section.data, md["blk"], ls.block_func.get(md["blk"]))
            ls.insert(md["blk"], md["at"], items)
            expected_contexts.append((uid, md["blk"], md["at"]))
        else:
            raise KeyError(md["op"])
    return ls, expected_contexts


def h_scopes(eng, spec):
    from gtirb_rewriting import Pass, PassManager

    sc = srh.Scenario(eng, spec)
    npass = 1 + max([md.get("pass", 0) for md in spec["mods"]] or [0])

    class P(Pass):
        def __init__(self, k):
            self.k = k

        def begin_module(self, module, functions, ctx):
            if self.k == 0:
                sc.begin_registration(ctx)
                if eng.sym:
                    ctx._decoder = StubDecoder(sc)
            for mi, md in enumerate(spec["mods"]):
                if md.get("pass", 0) == self.k:
                    sc.register_one(ctx, mi, md)

    pm = PassManager(expensive_assertions=not eng.sym)
    for k in range(npass):
        pm.add(P(k))
    pm.run(sc.ir)
    ls, expected = final_model_scopes(sc)
    rewrite.check_bytes(sc, ls)  # each patch exactly once in each designated block, at the designated boundary, in registration order
    # the InsertionContext handed to each invocation names the original block, offset and function
    got = []
    fn_uids = {md.get("uid", mi) for mi, md in enumerate(spec["mods"]) if md["op"] == "insert_function"}
    for uid, ctx in sc.contexts:
        if uid in fn_uids:
            continue  # the body of an inserted function: its context names the function's own stub block
        bid = next((k for k, v in sc.blocks.items() if v is ctx.block), None)
        eng.check(bid is not None, "C07 InsertionContext.block is not an original block of the module")
        got.append((uid, bid, ctx))
    eng.check(len(got) == len(expected), "C07 %d patch invocations, %d expected" % (len(got), len(expected)))
    remaining = list(expected)
    for uid, bid, ctx in got:
        hit = next((e for e in remaining if e[0] == uid and e[1] == bid), None)
        eng.check(hit is not None, "C07 registration %d was invoked for block %s which its scope does not designate" % (uid, bid))
        remaining.remove(hit)
        eng.check(ctx.offset == sc.boundary(bid, hit[2]), "C07 InsertionContext.offset of registration %d in %s" % (uid, bid))
        want_f = sc.bspec[bid].get("func") if sc.func_uuids else None
        got_f = None
        if ctx.function is not None:
            got_f = next((n for n, u in sc.func_uuids.items() if u == ctx.function.uuid), "?")
        eng.check(got_f == want_f, "C07 InsertionContext.function is %s for a block of %s" % (got_f, want_f))
        eng.check(ctx.module is sc.module, "C07 InsertionContext.module")
    eng.check(not remaining, "C07 designated blocks without an invocation: %s" % remaining)


def scope(kind, pos, patch="mov", **kw):
    d = {"op": "scope", "kind": kind, "pos": pos, "patch": patch}
    d.update(kw)
    return d


def orphan_layout():
    """F = {b0}, b1 in no function, G = {b2}, data block, H = {b4 'main'}"""
    return {
        "sections": [{"name": ".text", "exec": True, "blocks": [
            {"id": "b0", "kind": "code", "atoms": ["o", "o", "jcc:s2"], "syms": ["foo"], "func": "F", "entry": True},
            {"id": "b1", "kind": "code", "atoms": ["o", "call:s2"], "syms": ["s1"]},
            {"id": "b2", "kind": "code", "atoms": ["o", "ret"], "syms": ["s2"], "func": "G", "entry": True},
            {"id": "b3", "kind": "data", "atoms": ["d"], "syms": ["s3"]},
            {"id": "b4", "kind": "code", "atoms": ["o", "o"], "syms": ["main"], "func": "H", "entry": True},
            {"id": "b5", "kind": "code", "atoms": ["o", "ret"], "syms": ["s5"], "func": "H"},
        ]}],
        "ext": [], "mods": [], "annots": [], "entry_point": "b4",
    }


def dotnames_layout():
    """function names that contain regular-expression metacharacters: 'foo.x' (and 'fooax', which the pattern foo.x would
    also match), '$s4x'"""
    spec = orphan_layout()
    blocks = spec["sections"][0]["blocks"]
    blocks[0]["syms"] = ["foo.x"]
    blocks[2]["syms"] = ["fooax", "s2"]
    blocks[4]["syms"] = ["$s4x"]
    spec["entry_point"] = None
    return spec


def shapes(tier):
    out = []
    layouts = {"text": lambda: rewrite_shapes.text_layout("jcc:s0", annots=False),
               "call": lambda: rewrite_shapes.text_layout("call:s2", annots=False),
               "orphan": orphan_layout,
               # terminators whose only non-fallthrough edge is a Syscall edge / an edge without a label
               "leadgap": lambda: rewrite_shapes.leadgap_layout(annots=False),
               "syscall": lambda: rewrite_shapes.text_layout("sys", annots=False),
               "ijmp-nolabel": lambda: dict(rewrite_shapes.text_layout("ijmp", annots=False), unlabelled_ijmp=True),
               "nofunc": lambda: rewrite_shapes.text_layout("jcc:s0", funcs=False, annots=False)}
    positions = ["ENTRY", "EXIT", "ANYWHERE"]
    for lname, mk in layouts.items():
        for pos in positions:
            mods_list = [[scope("all_blocks", pos)], [scope("single_block", pos, blk="b1")]]
            if lname != "nofunc":
                mods_list += [[scope("all_functions", pos, fpos="ENTRY")], [scope("all_functions", pos, fpos="EXIT")]]
            for mods in mods_list:
                spec = mk()
                spec["mods"] = copy.deepcopy(mods)
                out.append(("%s/%s" % (lname, name_of(mods)), spec))
    # filters
    for mods in ([scope("all_blocks", "ENTRY", exclude=["foo"])], [scope("all_blocks", "EXIT", exclude=["re:s.*"])],
                 [scope("all_blocks", "ENTRY", exclude=["<main>"])], [scope("all_blocks", "ENTRY", exclude=["<entry>", "foo"])],
                 [scope("all_functions", "ENTRY", fpos="ENTRY", functions=["<main>"])],
                 [scope("all_functions", "EXIT", fpos="EXIT", functions=["<entry>"])],
                 [scope("all_functions", "ENTRY", fpos="ENTRY", functions=["re:(foo|s2)"])],
                 [scope("all_functions", "ANYWHERE", fpos="EXIT", functions=["nosuch"])],
                 # an empty filter set is a filter (nothing matches / nothing is excluded), not "no filter"
                 [scope("all_functions", "ENTRY", fpos="ENTRY", functions=[])],
                 [scope("all_functions", "EXIT", fpos="EXIT", functions=[])],
                 [scope("all_blocks", "ENTRY", exclude=[])]):
        spec = orphan_layout()
        spec["mods"] = copy.deepcopy(mods)
        out.append(("orphan/%s" % name_of(mods), spec))
    # a function inserted in the same context: a scope-wide registration walks the blocks that existed when apply() began,
    # and a scope that excludes the new function by name stays out of it in any case
    for mods in ([{"op": "insert_function", "name": "newfn", "patch": "func_simple"}, scope("all_blocks", "ENTRY", exclude=["newfn"])],
                 [scope("all_blocks", "EXIT", exclude=["newfn"]), {"op": "insert_function", "name": "newfn", "patch": "func_body"}],
                 [{"op": "insert_function", "name": "newfn", "patch": "func_simple"}, scope("all_functions", "ENTRY", fpos="ENTRY")]):
        spec = rewrite_shapes.text_layout("jcc:s0", annots=False)
        spec["sections"][0]["blocks"][0]["align"] = 1  # a user alignment entry keeps gtirb_layout from guessing alignments
        spec["mods"] = copy.deepcopy(mods)
        out.append(("newfunc/%s" % "+".join(m.get("name") or name_of([m]) for m in mods), spec))
    # literal names are compared as strings, not as patterns
    for mods in ([scope("all_blocks", "ENTRY", exclude=["foo.x"])], [scope("all_functions", "ENTRY", fpos="ENTRY", functions=["foo.x"])],
                 [scope("all_functions", "EXIT", fpos="EXIT", functions=["$s4x"])], [scope("all_blocks", "ENTRY", exclude=["$s4x", "fooax"])],
                 [scope("all_functions", "ENTRY", fpos="ENTRY", functions=["re:foo.x"])]):
        spec = dotnames_layout()
        spec["mods"] = copy.deepcopy(mods)
        out.append(("dotnames/%s" % name_of(mods), spec))
    # registration order at the same location, across passes and mixed with insert_at
    ins = rewrite_shapes.ins
    combos = [
        [scope("all_blocks", "ENTRY", "mov"), dict(ins("b1", 0, "label"))],
        [dict(ins("b1", 0, "label")), scope("all_blocks", "ENTRY", "mov")],
        [scope("all_blocks", "ENTRY", "mov"), dict(ins("b1", 0, "label"), **{"pass": 1}),
         dict(scope("single_block", "ENTRY", "two", blk="b2"), **{"pass": 1}), dict(scope("all_blocks", "ENTRY", "byte"), **{"pass": 2})],
        [scope("all_functions", "EXIT", fpos="EXIT"), dict(scope("all_blocks", "EXIT", "jcc_tmp"), **{"pass": 1})],
        [scope("single_block", "EXIT", blk="b1"), scope("single_block", "ANYWHERE", "label", blk="b1"), dict(ins("b1", 2, "two"))],
        [scope("all_blocks", "ANYWHERE", "mov"), scope("all_functions", "ENTRY", "jcc_tmp", fpos="ENTRY")],
    ]
    if tier == "thorough":
        # every ordered pair of scope registrations (same pass and two passes), plus a third registration via insert_at
        basic = []
        for pos in positions:
            basic.append(scope("all_blocks", pos))
            basic.append(scope("single_block", pos, blk="b1"))
            for fpos in ("ENTRY", "EXIT"):
                basic.append(scope("all_functions", pos, fpos=fpos))
        for lname in ("text", "orphan", "call"):
            for i, m1 in enumerate(basic):
                for j, m2 in enumerate(basic):
                    for two_pass in (False, True):
                        a = copy.deepcopy(m1)
                        b = copy.deepcopy(m2)
                        b["patch"] = "two"
                        if two_pass:
                            b["pass"] = 1
                        mods = [a, b, dict(ins("b1", 0, "byte"), **{"pass": 1 if two_pass else 0})]
                        spec = layouts[lname]()
                        spec["mods"] = mods
                        out.append(("%s/pair%d-%d%s" % (lname, i, j, "-2p" if two_pass else ""), spec))
    for lname in ("text", "orphan"):
        for mods in combos:
            spec = layouts[lname]()
            spec["mods"] = copy.deepcopy(mods)
            out.append(("%s/%s" % (lname, name_of(mods)), spec))
    return out


def name_of(mods):
    out = []
    for m in mods:
        if m["op"] == "scope":
            s = "%s-%s" % (m["kind"], m["pos"])
            if m.get("fpos"):
                s += "-f" + m["fpos"]
            if m.get("blk"):
                s += "-" + m["blk"]
            for k in ("exclude", "functions"):
                if m.get(k) is not None:
                    s += "-%s=%s" % (k[:2], ",".join(m[k]).replace("/", "_"))
            s += ":" + m["patch"]
        else:
            s = "i%s@%d:%s" % (m["blk"], m["at"], m["patch"])
        if m.get("pass"):
            s += "#p%d" % m["pass"]
        out.append(s)
    return "+".join(out)


def make_check(tier):
    chk = run.Check("C07", tier)
    chk.install_shims = rewrite.install
    chk.classify_exception = rewrite.classify
    for sid, spec in shapes(tier):
        chk.add(sid, h_scopes, params=dict(spec=spec), timeout=900)
    chk.bounds = {
        "layouts": "x86-64 ELF: 3 code blocks in 2 functions; block ending in call; functions interleaved with a function-less code "
                   "block and a data block, a function named main, an entry point; a module without function tables",
        "scopes": "AllBlocksScope, AllFunctionsScope (ENTRY/EXIT), SingleBlockScope x BlockPosition ENTRY/EXIT/ANYWHERE; name filters: "
                  "literal, compiled regular expression, MAIN_NAME, ENTRYPOINT_NAME, no match",
        "passes": "1-3 passes through the real PassManager.run registering 1-4 patches, mixed with insert_at at the same location",
        "symbolic": "every instruction size (the stub decoder reports them), addresses",
        "not covered": "regular expressions over symbolic names (names are concrete); bubbling (the library always takes the first offset)",
    }
    chk.assumptions = list(rewrite.ASSUME) + [
        "symbolic run: GtirbInstructionDecoder replaced by a stub returning the scenario's atoms with symbolic sizes; the concrete "
        "replays decode real bytes with capstone, which validates the stub on every replayed path"]
    return chk
