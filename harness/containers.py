"""C20: the rewrite's internal containers behave like their abstract models.

Real code: _modify/cache.py (ReferenceCache, ReturnEdgeCache, make_return_cache),
_adt/{block_ordering, linked_list, offset_mapping, identity_set}.py.
Operation sequences are enumerated with engine choices (exhaustive within the
stated sizes); OffsetMapping displacements are z3 integers, so equal/unequal
keys are decided by the solver.
"""
import gtirb

import functools
import signal

from symx import core, run, shims
from symx.core import And


def install():
    return shims.install_determinism()


RET = gtirb.Edge.Label(type=gtirb.Edge.Type.Return)
FT = gtirb.Edge.Label(type=gtirb.Edge.Type.Fallthrough)
CALL = gtirb.Edge.Label(type=gtirb.Edge.Type.Call)


def _module(nblocks):
    ir = gtirb.IR()
    m = gtirb.Module(name="m", isa=gtirb.Module.ISA.X64, file_format=gtirb.Module.FileFormat.ELF, ir=ir)
    s = gtirb.Section(name=".text", module=m)
    bi = gtirb.ByteInterval(contents=b"\x90" * nblocks, address=0x1000, section=s)
    blocks = [gtirb.CodeBlock(offset=i, size=1, byte_interval=bi) for i in range(nblocks)]
    return ir, m, blocks


# ---------------------------------------------------------------------------
# ReferenceCache == assigning Symbol.referent directly
# ---------------------------------------------------------------------------
def h_reference_cache(eng, nblocks, placement, n_retarget, n_query, first_fixed, allow_self=False):
    from gtirb_rewriting._modify.cache import ReferenceCache
    ir, m, blocks = _module(nblocks)
    syms = []
    model = {}
    for i, (bidx, at_end) in enumerate(placement):
        s = gtirb.Symbol("s%d" % i, payload=blocks[bidx], at_end=at_end, module=m)
        syms.append(s)
        model[s] = (blocks[bidx], at_end)
    cache = ReferenceCache()

    def check_direct(s):
        eng.check(s.referent is model[s][0] and s.at_end == model[s][1],
                  "symbol %s reads (%r, at_end=%s) after being made direct; the model says (%r, %s)" % (
                      s.name, s.referent, s.at_end, model[s][0], model[s][1]))

    pairs = [(i, j) for i in range(nblocks) for j in range(nblocks) if i != j or allow_self]
    with cache:
        for step in range(n_retarget):
            if step == 0 and first_fixed:
                i, j = 0, 1
            else:
                i, j = eng.choose("rt%d" % step, pairs)
            at_end = eng.choose("rte%d" % step, [False, True])
            cache.retarget_references(blocks[i], blocks[j], at_end)
            for s in syms:
                if model[s][0] is blocks[i]:
                    model[s] = (blocks[j], at_end)
        for step in range(n_query):
            op = eng.choose("q%d" % step, ["get_referent", "get_references", "set_referent", "retarget"])
            if op == "get_referent":
                s = syms[eng.choose("qs%d" % step, list(range(len(syms))))]
                got = cache.get_referent(s)
                eng.check(got is model[s][0], "get_referent(%s) returned %r, model %r" % (s.name, got, model[s][0]))
                check_direct(s)
            elif op == "get_references":
                b = blocks[eng.choose("qb%d" % step, list(range(nblocks)))]
                got = list(cache.get_references(b))
                want = [s for s in syms if model[s][0] is b]
                eng.check(len(got) == len(set(map(id, got))), "get_references yielded a symbol twice")
                eng.check(set(map(id, got)) == set(map(id, want)),
                          "get_references(%d) = %s, model %s" % (blocks.index(b), sorted(x.name for x in got), sorted(x.name for x in want)))
                for s in got:
                    check_direct(s)
            elif op == "set_referent":
                s = syms[eng.choose("qs%d" % step, list(range(len(syms))))]
                b = blocks[eng.choose("qb%d" % step, list(range(nblocks)))]
                ae = eng.choose("qe%d" % step, [False, True])
                cache.set_referent(s, b, ae)
                model[s] = (b, ae)
                check_direct(s)
            else:
                i, j = eng.choose("qr%d" % step, pairs)
                cache.retarget_references(blocks[i], blocks[j], False)
                for s in syms:
                    if model[s][0] is blocks[i]:
                        model[s] = (blocks[j], False)
    for s in syms:
        check_direct(s)
    for b in blocks:
        want = {id(s) for s in syms if model[s][0] is b}
        eng.check({id(s) for s in b.references} == want, "after apply() block.references differs from the model")
    eng.check(not cache._referents and not cache._references, "apply() left indirect references in the cache")


# ---------------------------------------------------------------------------
# ReturnEdgeCache == scan of the CFG
# ---------------------------------------------------------------------------
def _edge_universe(blocks, proxy):
    nodes = blocks + [proxy]
    out = []
    for src in blocks:
        for dst in nodes:
            for lab in (RET, FT):
                out.append(gtirb.Edge(src, dst, lab))
    return out


def _scan(cfg, block):
    rets = {e for e in cfg if e.source is block and e.label.type == gtirb.Edge.Type.Return}
    return rets, {e for e in rets if isinstance(e.target, gtirb.ProxyBlock)}


def _check_return_cache(eng, cache, blocks, what):
    for b in blocks:
        rets, prox = _scan(cache, b)
        eng.check(cache.block_return_edges(b) == rets, "%s: block_return_edges differs from a scan of the CFG" % what)
        eng.check(cache.block_proxy_return_edges(b) == prox, "%s: block_proxy_return_edges differs from a scan" % what)
        eng.check(cache.any_return_edges(b) == bool(rets), "%s: any_return_edges differs from a scan" % what)


def h_return_cache(eng, nsteps):
    from gtirb_rewriting._modify.cache import ReturnEdgeCache
    ir, m, blocks = _module(2)
    proxy = gtirb.ProxyBlock(module=m)
    uni = _edge_universe(blocks, proxy)
    cache = ReturnEdgeCache([uni[0], uni[3]])
    model = {uni[0], uni[3]}
    _check_return_cache(eng, cache, blocks, "initial")
    for step in range(nsteps):
        op = eng.choose("op%d" % step, ["add", "discard", "clear", "update", "query"])
        if op in ("add", "discard"):
            e = uni[eng.choose("e%d" % step, list(range(len(uni))))]
            getattr(cache, op)(e)
            (model.add if op == "add" else model.discard)(e)
        elif op == "clear":
            cache.clear()
            model.clear()
        elif op == "update":
            k = eng.choose("u%d" % step, list(range(0, len(uni), 3)))
            es = uni[k:k + 3]
            cache.update(es)
            model.update(es)
        else:
            # queries must not change anything (also for blocks without return edges)
            for b in blocks:
                cache.block_return_edges(b)
                cache.block_proxy_return_edges(b)
                cache.any_return_edges(b)
        eng.check(set(cache) == model, "ReturnEdgeCache edge set differs from a plain set after %s" % op)
        _check_return_cache(eng, cache, blocks, "after %s" % op)


def h_make_return_cache(eng):
    from gtirb_rewriting._modify.cache import CFGModifiedError, ReturnEdgeCache, make_return_cache
    ir, m, blocks = _module(2)
    proxy = gtirb.ProxyBlock(module=m)
    uni = _edge_universe(blocks, proxy)
    ir.cfg.add(uni[0])
    ir.cfg.add(uni[5])
    original = ir.cfg
    body = eng.choose("body", ["noop", "add", "discard", "add_then_raise", "discard_then_raise", "raise", "modify_original",
                               "replace_cfg", "replace_cfg_equal", "replace_cfg_other_cache", "nested", "nested_raise"])
    expected = set(original)
    raised = None

    class Boom(Exception):
        pass

    try:
        with make_return_cache(ir) as cache:
            eng.check(isinstance(ir.cfg, ReturnEdgeCache) and ir.cfg is cache, "ir.cfg is not the cache inside the context")
            eng.check(set(cache) == expected, "cache does not start with the CFG's edges")
            if body in ("add", "add_then_raise"):
                cache.add(uni[2])
                expected.add(uni[2])
            if body in ("discard", "discard_then_raise"):
                cache.discard(uni[0])
                expected.discard(uni[0])
            if body == "modify_original":
                original.add(uni[7])
            if body == "replace_cfg":
                ir.cfg = gtirb.CFG()
            if body == "replace_cfg_equal":
                ir.cfg = gtirb.CFG(ir.cfg)  # another object holding exactly the cache's edges: still a replacement
            if body == "replace_cfg_other_cache":
                ir.cfg = ReturnEdgeCache(ir.cfg)
            if body in ("nested", "nested_raise"):
                with make_return_cache(ir) as inner:
                    eng.check(inner is cache, "nested make_return_cache did not reuse the active cache")
                    inner.add(uni[4])
                    expected.add(uni[4])
                eng.check(ir.cfg is cache, "leaving a nested context dropped the outer cache")
                if body == "nested_raise":
                    raise Boom()
            if body.endswith("then_raise") or body == "raise":
                raise Boom()
            _check_return_cache(eng, cache, blocks, "inside the context")
            final = set(cache)
    except Boom:
        raised = "Boom"
        final = expected
    except CFGModifiedError:
        raised = "CFGModifiedError"
        final = expected
    eng.check(ir.cfg is original, "leaving make_return_cache did not restore the caller's CFG object")
    eng.check(type(ir.cfg) is gtirb.CFG, "ir.cfg is still a cache")
    if body in ("modify_original", "replace_cfg", "replace_cfg_equal", "replace_cfg_other_cache"):
        eng.check(raised == "CFGModifiedError", "modification of the original CFG / replacement of ir.cfg was not reported")
        if body == "modify_original":
            return
    elif body.endswith("raise"):
        eng.check(raised == "Boom", "exception of the body was swallowed")
    else:
        eng.check(raised is None, "unexpected %s" % raised)
    eng.check(set(ir.cfg) == final, "after the context the caller's CFG does not hold the final edges (missing %d, stale %d)" % (
        len(final - set(ir.cfg)), len(set(ir.cfg) - final)))


# ---------------------------------------------------------------------------
# BlockOrdering == plain lists
# ---------------------------------------------------------------------------
def h_block_ordering(eng, nsteps):
    from gtirb_rewriting._adt import BlockOrdering
    blocks = [gtirb.CodeBlock() for _ in range(5)]
    order = BlockOrdering()
    chains = []  # model: list of lists
    free = list(blocks)

    def placed():
        return [b for c in chains for b in c]

    for step in range(nsteps):
        ops = ["detached"] if free else []
        if placed():
            ops += ["remove", "adjacent"]
            if free:
                ops.append("after")
        if not ops:
            break
        op = eng.choose("op%d" % step, ops)
        if op == "detached":
            n = eng.choose("n%d" % step, list(range(1, min(2, len(free)) + 1)))
            new, free = free[:n], free[n:]
            order.add_detached_blocks(new)
            chains.append(list(new))
        elif op == "after":
            p = placed()
            anchor = p[eng.choose("a%d" % step, list(range(len(p))))]
            n = eng.choose("n%d" % step, list(range(1, min(2, len(free)) + 1)))
            new, free = free[:n], free[n:]
            order.insert_blocks_after(anchor, new)
            for c in chains:
                if anchor in c:
                    i = c.index(anchor)
                    c[i + 1:i + 1] = new
        elif op == "remove":
            p = placed()
            b = p[eng.choose("r%d" % step, list(range(len(p))))]
            order.remove_block(b)
            for c in chains:
                if b in c:
                    c.remove(b)
            chains = [c for c in chains if c]
            free.append(b)
            try:
                order.adjacent_blocks(b)
                eng.fail("removed block is still ordered")
            except KeyError:
                pass
        for c in chains:
            for i, b in enumerate(c):
                want = (c[i - 1] if i > 0 else None, c[i + 1] if i + 1 < len(c) else None)
                got = order.adjacent_blocks(b)
                eng.check(got[0] is want[0] and got[1] is want[1], "adjacent_blocks differs from the list model after %s" % op)
    if placed() and free is not None:
        b = placed()[0]
        try:
            order.add_detached_blocks([b])
            eng.fail("adding an already ordered block was accepted")
        except ValueError:
            eng.ok()


# ---------------------------------------------------------------------------
# OffsetMapping == dictionary of dictionaries (symbolic displacements)
# ---------------------------------------------------------------------------
def h_offset_mapping(eng, nsteps):
    from gtirb_rewriting._adt import OffsetMapping
    elems = [gtirb.CodeBlock(), gtirb.DataBlock()]
    disps = [eng.int("d%d" % i) for i in range(3)]
    om = OffsetMapping()
    model = {}  # elem -> [(disp, value)] association list; equality of displacements decided by z3

    def find(lst, d):
        for i, (k, _) in enumerate(lst):
            if bool(k == d):
                return i
        return None

    for step in range(nsteps):
        op = eng.choose("op%d" % step, ["set", "del", "set_elem", "del_elem", "get", "setdefault_sub"])
        e = elems[eng.choose("e%d" % step, [0, 1])]
        d = disps[eng.choose("d%d" % step, [0, 1, 2])]
        off = gtirb.Offset(e, d)
        if op == "set":
            om[off] = "v%d" % step
            lst = model.setdefault(e, [])
            i = find(lst, d)
            if i is None:
                lst.append((d, "v%d" % step))
            else:
                lst[i] = (d, "v%d" % step)
        elif op == "del":
            i = find(model.get(e, []), d) if e in model else None
            try:
                del om[off]
                eng.check(i is not None, "deleting a missing Offset did not raise KeyError")
                del model[e][i]
            except KeyError:
                eng.check(i is None, "deleting an existing Offset raised KeyError")
        elif op == "set_elem":
            om[e] = {d: "w%d" % step}
            model[e] = [(d, "w%d" % step)]
        elif op == "del_elem":
            try:
                del om[e]
                eng.check(e in model, "deleting a missing element did not raise KeyError")
                del model[e]
            except KeyError:
                eng.check(e not in model, "deleting an existing element raised KeyError")
        elif op == "get":
            i = find(model.get(e, []), d) if e in model else None
            got = om.get(off, "<none>")
            eng.check(got == (model[e][i][1] if i is not None else "<none>"), "get(Offset) differs from the model")
            eng.check((off in om) == (i is not None), "Offset membership differs from the model")
            try:
                v = om[off]
                eng.check(i is not None and v == model[e][i][1], "__getitem__(Offset) differs from the model")
            except KeyError:
                eng.check(i is None, "__getitem__ raised KeyError for an existing Offset")
        else:
            sub = om.setdefault(e, {})
            model.setdefault(e, [])
            sub[d] = "x%d" % step
            lst = model[e]
            i = find(lst, d)
            if i is None:
                lst.append((d, "x%d" % step))
            else:
                lst[i] = (d, "x%d" % step)
        # whole-structure comparison
        total = sum(len(v) for v in model.values())
        eng.check(len(om) == total, "len() differs from the model after %s" % op)
        eng.check(bool(om) == (total > 0), "truth value differs from the model")
        seen = 0
        for o in om:
            lst = model.get(o.element_id)
            i = find(lst, o.displacement) if lst is not None else None
            eng.check(i is not None and om[o] == lst[i][1], "iteration yields an Offset the model does not have")
            seen += 1
        eng.check(seen == total, "iteration length differs from the model")
        for el in elems:
            eng.check((el in om) == (el in model), "element membership differs from the model")
            if el in model:
                eng.check(len(om[el]) == len(model[el]), "per-element dictionary size differs")


# ---------------------------------------------------------------------------
# IdentitySet == set of object identities
# ---------------------------------------------------------------------------
def h_identity_set(eng, nsteps):
    from gtirb_rewriting._adt import IdentitySet
    objs = [[1], [1], [2]]  # equal but distinct, unhashable
    s = IdentitySet()
    model = []
    for step in range(nsteps):
        op = eng.choose("op%d" % step, ["add", "discard", "remove", "clear", "ior", "copy_then_mutate"])
        o = objs[eng.choose("o%d" % step, [0, 1, 2])]
        if op == "add":
            s.add(o)
            if not any(x is o for x in model):
                model.append(o)
        elif op == "discard":
            s.discard(o)
            model = [x for x in model if x is not o]
        elif op == "remove":
            present = any(x is o for x in model)
            try:
                s.remove(o)
                eng.check(present, "remove of a missing object did not raise")
                model = [x for x in model if x is not o]
            except KeyError:
                eng.check(not present, "remove of a present object raised KeyError")
        elif op == "clear":
            s.clear()
            model = []
        elif op == "copy_then_mutate":
            # a set built from another set is a set of its own
            t = IdentitySet(s)
            eng.check(sorted(map(id, t)) == sorted(map(id, model)), "IdentitySet(other) does not hold the other's objects")
            t.add(o)
            t.discard(objs[0])
            u = IdentitySet(s)
            u.clear()
        else:
            s |= [objs[0], o]
            for x in (objs[0], o):
                if not any(y is x for y in model):
                    model.append(x)
        eng.check(len(s) == len(model), "len differs from the identity model")
        for x in objs:
            eng.check((x in s) == any(y is x for y in model), "membership differs from the identity model")
        eng.check(sorted(map(id, s)) == sorted(map(id, model)), "iteration differs from the identity model")


def classify(rec):
    return "violation"


_G = globals()


class NonTermination(Exception):
    pass


_HUNG = {}


def watchdog(fn, seconds=20):
    """A container operation that does not return (e.g. a cycle in the reference cache's parent links) is a violation,
    not a timeout of the exploration: every path of these harnesses takes milliseconds.  After the first such path of
    a scenario the remaining ones are not waited for."""
    @functools.wraps(fn)
    def wrapped(eng, **params):
        if eng.sym and _HUNG.get(eng.shape, 0) >= 3:
            raise core.Abort()

        def on_timer(sig, frame):
            _HUNG[eng.shape] = _HUNG.get(eng.shape, 0) + 1
            raise NonTermination("a container operation did not return within %d s of CPU time" % seconds)
        old = signal.signal(signal.SIGPROF, on_timer)
        signal.setitimer(signal.ITIMER_PROF, seconds)
        try:
            return fn(eng, **params)
        finally:
            signal.setitimer(signal.ITIMER_PROF, 0)
            signal.signal(signal.SIGPROF, old)
    return wrapped


def make_check(tier):
    chk = run.Check("C20", tier)
    h_reference_cache, h_return_cache, h_make_return_cache, h_block_ordering, h_offset_mapping, h_identity_set = (
        watchdog(f) for f in (_G["h_reference_cache"], _G["h_return_cache"], _G["h_make_return_cache"],
                              _G["h_block_ordering"], _G["h_offset_mapping"], _G["h_identity_set"]))
    chk.install_shims = install
    chk.classify_exception = classify
    quick = tier == "quick"
    placements = {
        "3x3": [(0, False), (1, False), (2, True)],
        "4x4": [(0, False), (1, False), (2, False), (3, True)],
        "shared": [(0, False), (0, True), (1, False)],
    }
    chk.add("refcache/3blocks/chain", h_reference_cache,
            params=dict(nblocks=3, placement=placements["3x3"], n_retarget=2, n_query=2, first_fixed=True), timeout=3000)
    # retargeting a block to itself (only the end flag can change) among the requests
    chk.add("refcache/3blocks/self", h_reference_cache,
            params=dict(nblocks=3, placement=placements["3x3"], n_retarget=2, n_query=1, first_fixed=False, allow_self=True),
            timeout=3000)
    chk.add("refcache/3blocks/shared", h_reference_cache,
            params=dict(nblocks=3, placement=placements["shared"], n_retarget=2, n_query=2, first_fixed=True), timeout=3000)
    if quick:
        chk.add("refcache/4blocks/chain3", h_reference_cache,
                params=dict(nblocks=4, placement=placements["4x4"], n_retarget=3, n_query=1, first_fixed=True), timeout=6000)
    else:
        # deeper histories, partitioned into one shape per second retarget (each about the size of a quick-tier shape)
        for i in range(12):
            for e in range(2):
                chk.add("refcache/4blocks/chain3/second=%d,%d" % (i, e),
                        core.with_preset(h_reference_cache, {"rt1": i, "rte1": e}),
                        params=dict(nblocks=4, placement=placements["4x4"], n_retarget=3, n_query=2, first_fixed=True),
                        timeout=6000)
        for i in range(6):
            for e in range(2):
                chk.add("refcache/3blocks/long/second=%d,%d" % (i, e),
                        core.with_preset(h_reference_cache, {"rt1": i, "rte1": e}),
                        params=dict(nblocks=3, placement=placements["3x3"], n_retarget=3, n_query=2, first_fixed=True),
                        timeout=6000)
        for pre in [{"q0": 0}, {"q0": 1}, {"q0": 3}] + [{"q0": 2, "qs0": k} for k in range(3)]:
            chk.add("refcache/3blocks/queries3/first=%s" % ",".join("%s:%d" % kv for kv in sorted(pre.items())),
                    core.with_preset(h_reference_cache, pre),
                    params=dict(nblocks=3, placement=placements["3x3"], n_retarget=2, n_query=3, first_fixed=True), timeout=6000)
    if quick:
        chk.add("retcache/ops", h_return_cache, params=dict(nsteps=3), timeout=6000)
    else:
        # one more operation than the quick tier, partitioned into one shape per first operation (each shape then has the
        # size of the whole quick exploration and they run in parallel)
        ir, m, blocks = _module(2)
        nuni = len(_edge_universe(blocks, gtirb.ProxyBlock(module=m)))
        firsts = [{"op0": o, "e0": e} for o in (0, 1) for e in range(nuni)] + [{"op0": 2}] + \
                 [{"op0": 3, "u0": u} for u in range(len(range(0, nuni, 3)))] + [{"op0": 4}]
        for pre in firsts:
            chk.add("retcache/ops/first=%s" % ",".join("%s:%d" % kv for kv in sorted(pre.items())),
                    core.with_preset(h_return_cache, pre), params=dict(nsteps=4), timeout=6000)
    chk.add("retcache/context", h_make_return_cache)
    chk.add("blockordering", h_block_ordering, params=dict(nsteps=4 if quick else 5), timeout=6000)
    if quick:
        chk.add("offsetmapping", h_offset_mapping, params=dict(nsteps=3), timeout=6000)
        chk.add("identityset", h_identity_set, params=dict(nsteps=4), timeout=6000)
    else:
        for o in range(6):
            for e in range(2):
                for d in range(3):
                    chk.add("offsetmapping/first=op%d,e%d,d%d" % (o, e, d),
                            core.with_preset(h_offset_mapping, {"op0": o, "e0": e, "d0": d}), params=dict(nsteps=4), timeout=6000)
        for o in range(5):
            for x in range(3):
                chk.add("identityset/first=op%d,o%d" % (o, x), core.with_preset(h_identity_set, {"op0": o, "o0": x}),
                        params=dict(nsteps=5), timeout=6000)
    chk.bounds = {
        "ReferenceCache": "3-4 blocks, 3-4 symbols (start and at_end, shared block), 2-3 retargets (including chains and cycles) "
                          "followed by %s arbitrary operations (get_referent, get_references, set_referent, retarget), then "
                          "apply()" % ("1-2" if quick else "2-3 (deeper histories partitioned into one shape per second "
                                                           "retarget / first operation)"),
        "ReturnEdgeCache": "2 code blocks + 1 proxy, return and fallthrough edges, %d arbitrary operations from add/discard/clear/"
                           "update/query; make_return_cache with 10 body behaviours (edits, exceptions, modification of the "
                           "original CFG, replacement of ir.cfg, nesting)" % (3 if quick else 4),
        "BlockOrdering": "5 blocks, %d operations" % (4 if quick else 5),
        "OffsetMapping": "2 elements, 3 symbolic displacements (equalities decided by z3), %d operations" % (3 if quick else 4),
        "IdentitySet": "3 objects (two equal but distinct), %d operations" % (4 if quick else 5),
    }
    chk.extra = {"exhaustive": True}
    chk.assumptions = [
        "bounded histories from an initial state (not the inductive-step formulation sketched in the first design): every "
        "operation sequence up to the stated length is enumerated through engine choices; the solver's role is limited to "
        "OffsetMapping key equalities - said plainly: this is the weakest use of the technique among the checks",
        "direct assignment of Symbol.referent while a symbol is held indirectly is a documented misuse and not generated",
    ]
    return chk
