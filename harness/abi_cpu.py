"""C16: the prologue/epilogue generated around a patch make the patch transparent.

Real code: ABI._allocate_patch_registers and every
_create_prologue_and_epilogue (x86-64 ELF/PE, IA32 PE, ARM64 ELF, MIPS32 ELF).
The generated snippets are executed on a symbolic CPU from a fully symbolic
machine state (all registers, flags, stack pointer of arbitrary alignment,
memory); the patch body is a havoc of exactly the declared resources.  z3
decides the restoration / stack-discipline / alignment conditions for all
machine states; Constraints values are enumerated.
"""
import re
import uuid

import gtirb

from symx import core, run, shims
from symx.core import And, Not, Or

ABIS = {
    "x64-elf": (gtirb.Module.ISA.X64, gtirb.Module.FileFormat.ELF),
    "x64-pe": (gtirb.Module.ISA.X64, gtirb.Module.FileFormat.PE),
    "ia32-pe": (gtirb.Module.ISA.IA32, gtirb.Module.FileFormat.PE),
    "arm64": (gtirb.Module.ISA.ARM64, gtirb.Module.FileFormat.ELF),
    "mips32": (gtirb.Module.ISA.MIPS32, gtirb.Module.FileFormat.ELF),
}
WORD = {"x64-elf": 8, "x64-pe": 8, "ia32-pe": 4, "arm64": 8, "mips32": 4}
RED_ZONE = {"x64-elf": 128}
SP_NAMES = {"rsp", "esp", "sp"}
RESERVED = {"arm64": {"x16", "x17", "x18", "x29", "x30", "sp"}, "mips32": {"t8", "t9", "sp", "gp", "fp", "ra", "zero", "at", "k0", "k1"},
            "x64-elf": {"rsp"}, "x64-pe": {"rsp"}, "ia32-pe": {"esp"}}


class Fmt:
    def __init__(self, isa, ff):
        self.isa, self.file_format = isa, ff


class Reject(Exception):
    pass


class CPU:
    """Word-granular stack memory keyed by (symbolic) address; registers by canonical name."""

    def __init__(self, eng, abi, abiname):
        self.eng = eng
        self.abi = abi
        self.word = WORD[abiname]
        self.abiname = abiname
        self.regs = {}
        self.init = {}
        for r in abi.all_registers():
            v = eng.int("r_" + r.name)
            self.regs[r.name] = v
            self.init[r.name] = v
        self.flags = eng.int("flags")
        self.flags0 = self.flags
        self.sp = eng.int("SP0", 4096, None)
        self.sp0 = self.sp
        self.mem = []  # [(addr, value, size)] most recent first
        self.stores = []
        self.loads = []

    def canon(self, name):
        name = name.strip().lstrip("%$").lower()
        if name in SP_NAMES:
            return "sp"
        return self.abi.get_register(name).name

    def get(self, name):
        c = self.canon(name)
        return self.sp if c == "sp" else self.regs[c]

    def set(self, name, v):
        c = self.canon(name)
        if c == "sp":
            self.sp = v
        else:
            self.regs[c] = v

    def store(self, addr, value, size=None):
        size = size or self.word
        self.stores.append((addr, size))
        self.mem.insert(0, (addr, value, size))

    def load(self, addr):
        for (a, v, s) in self.mem:
            if self.eng.must(a == addr):
                self.loads.append((addr, True))
                return v
            if not self.eng.must(Or(a + s <= addr, addr + self.word <= a)):
                break
        self.loads.append((addr, False))
        return self.eng.int("junk%d" % len(self.loads))

    def push(self, v):
        self.sp = self.sp - self.word
        self.store(self.sp, v)

    def pop(self):
        v = self.load(self.sp)
        self.sp = self.sp + self.word
        return v

    # ---- front-end for the closed set of instructions the ABI classes emit -----------------
    def run(self, text):
        for raw in text.split("\n"):
            line = raw.strip()
            if not line:
                continue
            self.step(line)

    def step(self, line):
        m = re.fullmatch(r"(pushfq|pushfd)", line)
        if m:
            return self.push(self.flags)
        m = re.fullmatch(r"(popfq|popfd)", line)
        if m:
            self.flags = self.pop()
            return
        m = re.fullmatch(r"pushq?\s+%(\w+)", line)
        if m:
            return self.push(self.get(m.group(1)))
        m = re.fullmatch(r"popq?\s+%(\w+)", line)
        if m:
            return self.set(m.group(1), self.pop())
        m = re.fullmatch(r"leaq?\s+([+-]?(?:0x)?[0-9a-fA-F]+)\(%(\w+)\),\s*%(\w+)", line)
        if m:
            return self.set(m.group(3), self.get(m.group(2)) + int(m.group(1), 0))
        m = re.fullmatch(r"movq?\s+%(\w+),\s*%(\w+)", line)
        if m:
            return self.set(m.group(2), self.get(m.group(1)))
        m = re.fullmatch(r"andq?\s+\$(-?(?:0x)?[0-9a-fA-F]+),\s*%(\w+)", line)
        if m:
            k = int(m.group(1), 0)
            return self.set(m.group(2), self.get(m.group(2)) & k)
        # ---- ARM64 ----
        m = re.fullmatch(r"stp (\w+), (\w+), \[sp, #(-?\d+)\]!", line)
        if m:
            self.sp = self.sp + int(m.group(3))
            self.store(self.sp, self.get(m.group(1)))
            self.store(self.sp + 8, self.get(m.group(2)))
            return
        m = re.fullmatch(r"ldp (\w+), (\w+), \[sp\], #(\d+)", line)
        if m:
            self.set(m.group(1), self.load(self.sp))
            self.set(m.group(2), self.load(self.sp + 8))
            self.sp = self.sp + int(m.group(3))
            return
        m = re.fullmatch(r"str (\w+), \[sp, #(-?\d+)\]!", line)
        if m:
            self.sp = self.sp + int(m.group(2))
            self.store(self.sp, self.get(m.group(1)))
            return
        m = re.fullmatch(r"ldr (\w+), \[sp\], #(\d+)", line)
        if m:
            self.set(m.group(1), self.load(self.sp))
            self.sp = self.sp + int(m.group(2))
            return
        m = re.fullmatch(r"mrs (\w+), nzcv", line)
        if m:
            return self.set(m.group(1), self.flags)
        m = re.fullmatch(r"msr nzcv, (\w+)", line)
        if m:
            self.flags = self.get(m.group(1))
            return
        # ---- MIPS ----
        m = re.fullmatch(r"addiu \$sp, \$sp, (-?\d+)", line)
        if m:
            self.sp = self.sp + int(m.group(1))
            return
        m = re.fullmatch(r"sw \$(\w+), (-?\d+)\(\$sp\)", line)
        if m:
            return self.store(self.sp + int(m.group(2)), self.get(m.group(1)))
        m = re.fullmatch(r"lw \$(\w+), (-?\d+)\(\$sp\)", line)
        if m:
            return self.set(m.group(1), self.load(self.sp + int(m.group(2))))
        raise Reject("instruction outside the closed set: %r" % line)


def h_prologue(eng, abiname, flags, align, preserve):
    from gtirb_rewriting.abi import ABI
    from gtirb_rewriting.assembly import Constraints

    abi = ABI.get(Fmt(*ABIS[abiname]))
    all_regs = [r.name for r in abi.all_registers()]
    scratchable = [r.name for r in abi._scratch_registers()]
    clobber_sets = [[], scratchable[:1], scratchable[1:3], scratchable[:3], [all_regs[-1]], ["%s" % _alias(abi, scratchable[0])]]
    read_sets = [[], scratchable[:1], [_alias(abi, scratchable[1])], scratchable[:2]]
    scratch_counts = [0, 1, 2, 3]
    if TIER == "thorough":
        import itertools
        usable = [r for r in all_regs if r not in RESERVED[abiname] and r not in SP_NAMES]
        clobber_sets += [[r] for r in usable[1:]] + [list(c) for c in itertools.combinations(scratchable[:6], 2)]
        clobber_sets += [scratchable[:5], usable]
        try:
            clobber_sets.append([r.name for r in abi.caller_saved_registers()])
        except NotImplementedError:
            pass
        read_sets += [[r] for r in scratchable[2:6]] + [[_alias(abi, r)] for r in scratchable[2:4]]
        scratch_counts = [0, 1, 2, 3, 5]
    clobbers = eng.choose("clobbers", clobber_sets)
    nscratch = eng.choose("scratch", scratch_counts)
    reads = eng.choose("reads", read_sets)
    leaf = eng.choose("leaf", [False, True])
    cons = Constraints(clobbers_registers=set(clobbers), clobbers_flags=flags, scratch_registers=nscratch,
                       reads_registers=set(reads), align_stack=align, preserve_caller_saved_registers=preserve)
    try:
        alloc = abi._allocate_patch_registers(cons)
    except ValueError as ex:
        # a read register that is not a scratch candidate (already clobbered etc.) is refused loudly
        eng.ok()
        return
    try:
        prologue, epilogue, adj = abi._create_prologue_and_epilogue(cons, alloc, leaf)
    except NotImplementedError:
        eng.check(abiname == "mips32" and align, "prologue generation refused")
        return
    prologue, epilogue = list(prologue), list(epilogue)
    # ---- scratch registers -----------------------------------------------------------------
    scr = [r.name for r in alloc.scratch_registers]
    eng.check(len(scr) == nscratch, "%d scratch registers handed out, %d requested" % (len(scr), nscratch))
    eng.check(len(set(scr)) == len(scr), "scratch registers are not distinct")
    read_canon = {abi.get_register(r).name for r in reads}
    for r in scr:
        eng.check(r not in read_canon, "scratch register %s is a register the patch reads" % r)
        eng.check(r not in RESERVED[abiname] and r not in SP_NAMES, "scratch register %s is reserved / the stack pointer" % r)
    saved = {r.name for r in alloc.clobbered_registers}
    declared = {abi.get_register(r).name for r in clobbers} | set(scr)
    if preserve:
        declared |= {r.name for r in abi.caller_saved_registers()}
    eng.check(declared <= saved | {"sp"}, "declared registers that are not saved: %s" % sorted(declared - saved))
    # ---- run prologue, havoc, epilogue on the symbolic CPU ------------------------------------------
    cpu = CPU(eng, abi, abiname)
    try:
        for sn in prologue:
            cpu.run(sn.code)
        sp_body = cpu.sp
        # the patch body: may change exactly what it declared (and, on ARM64, the register the ABI borrowed for the flags,
        # which the ABI adds to the saved set itself), memory strictly below its stack pointer, and must keep SP
        for r in declared | (saved if abiname == "arm64" else set()):
            if r != "sp":
                cpu.regs[r] = eng.int("h_" + r)
        if flags:
            cpu.flags = eng.int("h_flags")
        cpu.mem = [(a, v, s) for (a, v, s) in cpu.mem if eng.must(a >= sp_body)]
        for sn in epilogue:
            cpu.run(sn.code)
    except Reject as rj:
        raise core.Unsupported(str(rj))
    # ---- verdicts -------------------------------------------------------------------------------------
    eng.check(cpu.sp == cpu.sp0, "the stack pointer is not restored")
    for r in sorted(declared):
        if r != "sp":
            eng.check(cpu.regs[r] == cpu.init[r], "register %s is not restored" % r)
    for r in all_regs:
        if r not in declared and r not in SP_NAMES and r not in saved:
            eng.check(cpu.regs[r] == cpu.init[r], "register %s that the patch did not declare is changed by the prologue/epilogue" % r,
                      finding="C16-align-stack-changes-undeclared-register" if align and r in ("rax", "eax") else None)
    if flags and abiname != "mips32":  # MIPS32 has no condition flags
        eng.check(cpu.flags == cpu.flags0, "the flags are not restored")
    rz = RED_ZONE.get(abiname, 0) if leaf else 0
    for (a, size) in cpu.stores:
        eng.check(a + size <= cpu.sp0, "the prologue/epilogue writes at or above the original stack pointer")
        if rz:
            eng.check(a + size <= cpu.sp0 - rz, "the prologue writes inside the red zone of a possible leaf function",
                      finding="C16-align-stack-alone-writes-red-zone" if (align and not flags and not saved) else None)
    for (a, ok) in cpu.loads:
        eng.check(ok, "the epilogue reads a stack slot the prologue did not write")
    if align and abiname != "arm64":
        abi_align = abi.calling_convention().stack_alignment
        eng.check(sp_body % abi_align == 0, "align_stack: the patch body does not run with an ABI-aligned (%d) stack" % abi_align)
    if adj is not None:
        eng.check(cpu.sp0 - sp_body == adj, "reported stack_adjustment %s differs from the real displacement" % adj)
    if abiname == "arm64":
        eng.check((cpu.sp0 - sp_body) % 16 == 0, "ARM64 stack pointer not kept 16-byte aligned")
    # translation validation on the concrete replay: the real assembler accepts every snippet
    if not eng.sym:
        from gtirb_rewriting.assembler import Assembler
        a = Assembler(Fmt(*ABIS[abiname]) if False else _target_module(abiname))
        n = 0
        for sn in prologue + epilogue:
            a.assemble(sn.code, sn.x86_syntax)
            n += 1
        a.finalize()


def _target_module(abiname):
    isa, ff = ABIS[abiname]
    ir = gtirb.IR()
    return gtirb.Module(name="m", isa=isa, file_format=ff, ir=ir, byte_order=gtirb.Module.ByteOrder.Little)


def _alias(abi, name):
    """A sub-register / alternative name of a register, to exercise name resolution."""
    reg = abi.get_register(name)
    others = [n for n in reg.sizes.values() if n != reg.name]
    return others[0] if others else name


def classify(rec):
    return "violation"


TIER = "quick"


def h_leaf_plumbing(eng):
    """The 'may be a leaf function' bit that RewritingContext hands to the ABI (it decides the red-zone skip): True for a
    block outside every known function, otherwise the leafFunctions entry, which defaults to 'no call edge leaves the
    function' for functions given to the context."""
    import gtirb_functions
    import gtirb_rewriting
    from gtirb_rewriting import Constraints, Patch, RewritingContext, _auxdata

    ir = gtirb.IR()
    m = gtirb.Module(name="m", isa=gtirb.Module.ISA.X64, file_format=gtirb.Module.FileFormat.ELF, ir=ir,
                     byte_order=gtirb.Module.ByteOrder.Little)
    sect = gtirb.Section(name=".text", module=m, flags={gtirb.Section.Flag.Readable, gtirb.Section.Flag.Executable,
                                                        gtirb.Section.Flag.Loaded, gtirb.Section.Flag.Initialized})
    bi = gtirb.ByteInterval(contents=b"\x90\xc3" * 2 + b"\xe8\x00\x00\x00\x00\xc3" + b"\x90\xc3", address=0x1000, section=sect)
    leafb = gtirb.CodeBlock(offset=0, size=2, byte_interval=bi)
    orphan = gtirb.CodeBlock(offset=2, size=2, byte_interval=bi)
    callb = gtirb.CodeBlock(offset=4, size=6, byte_interval=bi)
    unknown = gtirb.CodeBlock(offset=10, size=2, byte_interval=bi)
    ext = gtirb.ProxyBlock(module=m)
    ir.cfg.add(gtirb.Edge(callb, ext, gtirb.Edge.Label(gtirb.Edge.Type.Call, direct=True)))
    names = {}
    fb, fe, fn = {}, {}, {}
    for name, b in (("leaf", leafb), ("caller", callb), ("unknown", unknown)):
        u = uuid.uuid4()
        sym = gtirb.Symbol(name, payload=b, module=m)
        fb[u], fe[u], fn[u] = {b}, {b}, sym
        names[name] = u
    m.aux_data["functionBlocks"] = gtirb.AuxData(fb, "mapping<UUID,set<UUID>>")
    m.aux_data["functionEntries"] = gtirb.AuxData(fe, "mapping<UUID,set<UUID>>")
    m.aux_data["functionNames"] = gtirb.AuxData(fn, "mapping<UUID,UUID>")
    funcs = [f for f in gtirb_functions.Function.build_functions(m) if f.uuid != names["unknown"]]
    table = eng.choose("leafFunctions", ["absent", "leaf=0", "caller=1"])
    if table != "absent":
        _auxdata.leaf_functions.get_or_insert(m)[names["leaf" if table == "leaf=0" else "caller"]] = 0 if table == "leaf=0" else 1
    where = eng.choose("where", ["leaf", "caller", "orphan", "unknown"])
    blk = {"leaf": leafb, "caller": callb, "orphan": orphan, "unknown": unknown}[where]
    ctx = RewritingContext(m, funcs)
    seen = []
    real = ctx._abi._create_prologue_and_epilogue

    def spy(constraints, registers, is_leaf):
        seen.append(is_leaf)
        return real(constraints, registers, is_leaf)
    ctx._abi._create_prologue_and_epilogue = spy
    ctx.insert_at(blk, 0, Patch.from_function(lambda c: "nop", Constraints(clobbers_flags=True)))
    ctx.apply()
    want = {"leaf": table != "leaf=0", "caller": table == "caller=1", "orphan": True, "unknown": True}[where]
    eng.check(len(seen) == 1 and bool(seen[0]) == want,
              "block %s, leafFunctions %s: the ABI was told is_leaf=%r, expected %r" % (where, table, seen, want))
    # and the consequence on x86-64 ELF: the first thing a flag-clobbering patch does in a possible leaf is skip the red zone
    data = bytes(bi.contents[blk.offset:blk.offset + 8])
    skips = data.startswith(bytes.fromhex("488da42480ffffff")) or data.startswith(bytes.fromhex("488d6424 80".replace(" ", "")))
    eng.check(skips == want, "red-zone skip %s for a patch in block %s (is_leaf expected %r): %s" % (
        "present" if skips else "missing", where, want, data.hex()))


def h_shared_patch(eng, isa):
    """One Patch object inserted at several places, and again in a second rewrite of a fresh module (what a pass that keeps
    its patch around does): every insertion gets the whole prologue and epilogue, and the bytes do not depend on how often the
    object was used before."""
    from gtirb_rewriting import Constraints, Patch, RewritingContext

    ISA = {"x64": gtirb.Module.ISA.X64, "arm64": gtirb.Module.ISA.ARM64, "ia32": gtirb.Module.ISA.IA32}[isa]
    FMT = gtirb.Module.FileFormat.PE if isa == "ia32" else gtirb.Module.FileFormat.ELF
    code = {"x64": b"\x90\xc3", "ia32": b"\x90\xc3", "arm64": b"\x1f\x20\x03\xd5" + b"\xc0\x03\x5f\xd6"}[isa]
    reg = {"x64": "rax", "ia32": "eax", "arm64": "x0"}[isa]
    body = "nop"
    patch = Patch.from_function(lambda c: body, Constraints(clobbers_flags=True, clobbers_registers={reg}))

    def rewrite():
        ir = gtirb.IR()
        m = gtirb.Module(name="m", isa=ISA, file_format=FMT, ir=ir, byte_order=gtirb.Module.ByteOrder.Little)
        sect = gtirb.Section(name=".text", module=m, flags={gtirb.Section.Flag.Readable, gtirb.Section.Flag.Executable,
                                                            gtirb.Section.Flag.Loaded, gtirb.Section.Flag.Initialized})
        bi = gtirb.ByteInterval(contents=code * 3, address=0x1000, section=sect)
        blocks = [gtirb.CodeBlock(offset=i * len(code), size=len(code), byte_interval=bi) for i in range(3)]
        for i, b in enumerate(blocks):
            gtirb.Symbol("f%d" % i, payload=b, module=m)
            ir.cfg.add(gtirb.Edge(b, gtirb.ProxyBlock(module=m), gtirb.Edge.Label(gtirb.Edge.Type.Return)))
        ctx = RewritingContext(m, [])
        for b in blocks:
            ctx.insert_at(b, 0, patch)
        ctx.apply()
        out = []
        for i in range(3):
            ref = next(m.symbols_named("f%d" % i)).referent
            nxt = next(m.symbols_named("f%d" % (i + 1))).referent if i < 2 else None
            start = ref.address
            end = nxt.address if nxt is not None else ref.byte_interval.address + ref.byte_interval.size
            iv = ref.byte_interval
            out.append(bytes(iv.contents[start - iv.address:end - iv.address]).hex())
        return out

    first = rewrite()
    second = rewrite()
    eng.check(len(set(first)) == 1, "one Patch object inserted at three identical places gives different code: %r" % (first,))
    eng.check(first[0].endswith(code.hex()) and len(first[0]) > len(code.hex()), "the original instructions do not follow the insertion")
    eng.check(second == first, "the same Patch object used in a second rewrite of an identical module gives different code: "
                               "%r then %r" % (first, second))


def h_scratch_pool(eng, abiname):
    """Scratch registers when clobbers and reads use up the pool: exactly as many as requested, or a ValueError - never fewer."""
    from gtirb_rewriting import Constraints
    from gtirb_rewriting.abi import ABI

    class Desc:
        pass
    d = Desc()
    d.isa, d.file_format = ABIS[abiname]
    abi = ABI.get(d)
    pool = [r.name for r in abi._scratch_registers()]
    bad = sorted(set(pool) & (RESERVED[abiname] | SP_NAMES))
    eng.check(not bad, "the scratch pool of %s contains reserved registers: %s" % (abiname, bad))
    eng.check(len(set(pool)) == len(pool), "the scratch pool repeats a register")
    n = len(pool)
    k = eng.choose("clobbered", list(range(0, n + 1)))
    r = eng.choose("read", [x for x in (0, 1, 2) if k + x <= n])
    left = n - k - r
    want = eng.choose("requested", sorted({x for x in (left - 1, left, left + 1, n) if x >= 0}))
    clobbers, reads = pool[:k], pool[k:k + r]
    # a register the patch only reads need not be a scratch candidate at all (an argument register on MIPS, the frame
    # pointer on ARM64): it simply is not handed out
    outside = [x.name for x in abi.all_registers() if x.name not in pool and x.name not in SP_NAMES]
    if outside and eng.choose("read_outside_pool", [False, True]):
        reads = reads + [outside[0]]
    cons = Constraints(clobbers_registers=set(clobbers), reads_registers=set(reads), scratch_registers=want)
    try:
        alloc = abi._allocate_patch_registers(cons)
    except ValueError:
        eng.check(want > left, "%d scratch registers refused although %d remain (pool %d, %d clobbered, %d read)" % (want, left, n, k, r))
        return
    got = [x.name for x in alloc.scratch_registers]
    eng.check(want <= left, "%d scratch registers requested with only %d left: no error, got %r" % (want, left, got))
    eng.check(len(got) == want, "%d scratch registers requested, %d handed out (%r)" % (want, len(got), got))
    eng.check(len(set(got)) == len(got) and not set(got) & set(reads) and not set(got) & set(clobbers),
              "scratch registers %r overlap the read %r / clobbered %r registers or repeat" % (got, reads, clobbers))


def make_check(tier):
    global TIER
    TIER = tier
    chk = run.Check("C16", tier, level="translation_validation")
    chk.install_shims = shims.install_determinism
    chk.classify_exception = classify
    for abiname in ABIS:
        for flags in (False, True):
            for align in (False, True):
                for preserve in (False, True):
                    chk.add("prologue/%s/flags%d/align%d/preserve%d" % (abiname, flags, align, preserve), h_prologue,
                            params=dict(abiname=abiname, flags=flags, align=align, preserve=preserve), timeout=3000)
    chk.add("leaf-plumbing/x64-elf", h_leaf_plumbing, timeout=600)
    for isa in ("x64", "ia32", "arm64"):
        chk.add("shared-patch/%s" % isa, h_shared_patch, params=dict(isa=isa), timeout=600)
    for abiname in ABIS:
        chk.add("scratch-pool/%s" % abiname, h_scratch_pool, params=dict(abiname=abiname), timeout=600)
    chk.bounds = {
        "patch object reuse": "one Patch object (clobbers a register and the flags) inserted at three places and in two successive rewrites",
        "scratch pool": "every ABI: 0..all pool registers clobbered, 0..2 read, requests around what is left (left-1, left, left+1, whole pool)",
        "leaf bit": "RewritingContext -> ABI: block in a leaf function, in a calling function, outside every function, in a function "
                    "the context was not given; leafFunctions table absent or overriding either way",
        "configurations (enumerated)": "5 ABIs x clobbers_flags x align_stack x preserve_caller_saved_registers x scratch 0..3 x "
                                       "leaf/non-leaf x 6 clobber sets (none, 1, 2, 3 registers, a non-scratch register, a "
                                       "sub-register alias) x 4 read sets (none, 1, alias, 2)",
        "machine state (symbolic)": "every general purpose register, the flags, the stack pointer (any value >= 4096, any alignment), "
                                    "stack memory; the patch body is a havoc of exactly the declared registers/flags and of memory "
                                    "below its own stack pointer",
        "instruction set": "closed: pushf/popf, push/pop, lea, mov, and; stp/ldp/str/ldr pre/post-index, mrs/msr nzcv; addiu, sw, lw - "
                           "anything else makes the check inconclusive",
    }
    chk.assumptions = [
        "the symbolic CPU interprets the snippet TEXT the ABI classes return; the concrete replays assemble every snippet with the "
        "real assembler (acceptance only)",
        "integer (unbounded) model of registers: wrap-around of the stack pointer is outside the claim",
        "flags are one opaque value",
    ]
    return chk
