"""Entry point: python -m harness.main <id> [quick|thorough] | <id> --replay <file>"""
import faulthandler
import importlib
import signal
import os
import sys

from symx import run

MODULES = {
    "C01": "harness.rewrite",
    "C02": "harness.rewrite",
    "C03": "harness.rewrite",
    "C04": "harness.rewrite",
    "C05": "harness.rewrite",
    "C06": "harness.rewrite",
    "C07": "harness.scopes",
    "C08": "harness.rewrite",
    "C09": "harness.rewrite",
    "C10": "harness.intervals",
    "C11": "harness.rewrite",
    "C12": "harness.asm",
    "C13": "harness.asm",
    "C14": "harness.dwarf",
    "C16": "harness.abi_cpu",
    "C17": "harness.calls",
    "C18": "harness.retarget",
    "C19": "harness.delsym",
    "C20": "harness.containers",
    "C15": "harness.cfi_eval",
}


def main(argv):
    faulthandler.register(signal.SIGUSR1, all_threads=True)
    if len(argv) < 1:
        print("usage: check <id> [quick|thorough|--replay file]")
        return 3
    pid = argv[0]
    tier = os.environ.get("VERIF_TIER") or "quick"
    replay = None
    if len(argv) > 1:
        if argv[1] == "--replay":
            replay = argv[2]
        else:
            tier = argv[1]
    if pid not in MODULES:
        print("no check for", pid)
        return 3
    if pid == "C11":
        # C11 runs the library re-compiled from the current source with iteration sites made controllable
        from symx import ndorder
        ndorder.install()
    mod = importlib.import_module(MODULES[pid])
    maker = getattr(mod, "make_check_" + pid, None) or mod.make_check
    chk = maker(tier)
    if replay:
        return run.replay_file(chk, replay)
    only = os.environ.get("VERIF_ONLY")
    if only:
        chk.shapes = [s for s in chk.shapes if only in s.sid]
    return run.finish(chk)


if __name__ == "__main__":
    sys.exit(main(sys.argv[1:]))
