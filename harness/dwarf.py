"""C14: DWARF expression / CFI encodings round-trip and match the standard.

Real code under symbolic inputs: every Operation / Instruction subclass,
_OpcodeEncodable.{__post_init__, _validate, encode, decode}, all _encoders,
leb128.{u,i}.{encode, decode_reader}, _ExprEncoder, parse_cfi_instructions,
Instruction.{_operands, gtirb_encoding}, make_const_op, OpConst.__new__.
"""
import io
import uuid

from oracle import dwarf_ref as R
from symx import core, run, shims
from symx.core import And, Not, SBytes, SIO, Unsupported

CAP_BITS = {"quick": 21, "thorough": 70}
ALLOWED = ("ValueError", "EOFError")


def _mods():
    import gtirb_rewriting.dwarf.cfi as CFI
    import gtirb_rewriting.dwarf.expr as EXPR
    return EXPR, CFI


def reader(b):
    if isinstance(b, SBytes):
        return SIO(b)
    return io.BytesIO(bytes(b))


def registry_check():
    """The oracle table must name exactly the classes the library registers."""
    EXPR, CFI = _mods()
    import gtirb_rewriting.dwarf._encodable as ENB
    from gtirb_rewriting.dwarf.dwarf2 import CallFrameInstructions, ExpressionOperations
    ops = {c.__name__ for c in ENB._OpcodeEncodable._per_type_storage[ExpressionOperations].opcodes.values()}
    insts = {c.__name__ for c in ENB._OpcodeEncodable._per_type_storage[CallFrameInstructions].opcodes.values()}
    if ops != set(R.DW_OP) or insts != set(R.DW_CFA):
        raise Unsupported("library classes differ from the reference table: %s / %s" % (
            sorted(ops ^ set(R.DW_OP)), sorted(insts ^ set(R.DW_CFA))))


def table(base):
    return R.DW_OP if base == "op" else R.DW_CFA


def get_cls(base, name):
    EXPR, CFI = _mods()
    return getattr(EXPR if base == "op" else CFI, name)


def base_cls(base):
    EXPR, CFI = _mods()
    return EXPR.Operation if base == "op" else CFI.Instruction


# ---------------------------------------------------------------------------
# reference matcher: do bytes bs[pos:] start with the standard encoding of v?
# ---------------------------------------------------------------------------
def leb_extent(bs, pos):
    """Index one past the LEB128 group starting at pos (continuation bits)."""
    i = pos
    while True:
        if i >= len(bs):
            return None
        if bool(bs[i] < 128):
            return i + 1
        i += 1


def match_operand(eng, bs, pos, kind, v, bo, ps, canonical=True):
    """-> (condition, new position) or (False, None) when the shape is off."""
    if kind in R.FIXED or kind == "ptr":
        n, signed = R.FIXED[kind] if kind in R.FIXED else (ps, False)
        if pos + n > len(bs):
            return False, None
        return R.fixed_bytes_ok(bs[pos:pos + n], v, n, signed, bo), pos + n
    if kind in ("uleb", "sleb"):
        end = leb_extent(bs, pos)
        if end is None:
            return False, None
        grp = list(bs[pos:end])
        if canonical:
            ok = R.uleb_bytes_ok(grp, v) if kind == "uleb" else R.sleb_bytes_ok(grp, v)
        else:
            total = 0
            for i, b in enumerate(grp):
                total = total + (b - core.Ite(b >= 128, 128, 0)) * (128 ** i)
            if kind == "sleb":
                total = core.Ite(grp[-1] >= 64, total - 128 ** len(grp), total)
            ok = total == v
        return ok, end
    if kind == "block":
        end = leb_extent(bs, pos)
        if end is None:
            return False, None
        inner_conds = []
        p = end
        for (oname, ovals) in v:
            c, p = match_op(eng, bs, p, "op", oname, ovals, bo, ps, canonical)
            if p is None:
                return False, None
            inner_conds.append(c)
        grp = list(bs[pos:end])
        if canonical:
            inner_conds.append(R.uleb_bytes_ok(grp, p - end))
        return And(*inner_conds) if inner_conds else True, p
    raise KeyError(kind)


def match_op(eng, bs, pos, base, name, vals, bo, ps, canonical=True):
    entry = table(base)[name]
    opcode, kinds = entry[0], entry[1]
    if pos >= len(bs):
        return False, None
    conds = []
    ks = list(kinds)
    vs = list(vals)
    if ks and ks[0].startswith("fuse"):
        conds.append(bs[pos] == opcode + vs[0])
        conds.append(R.in_domain(ks[0], vs[0]))
        ks, vs = ks[1:], vs[1:]
    else:
        conds.append(bs[pos] == opcode)
    p = pos + 1
    for k, v in zip(ks, vs):
        c, p = match_operand(eng, bs, p, k, v, bo, ps, canonical)
        if p is None:
            return False, None
        conds.append(c)
    return And(*conds), p


def fields_of(obj):
    import dataclasses
    return [getattr(obj, f.name) for f in dataclasses.fields(obj)]


def same_object(a, name, vals):
    """Structural equality of a decoded object with (class name, operand values)."""
    if type(a).__name__ != name:
        return False
    fa = fields_of(a)
    if len(fa) != len(vals):
        return False
    conds = []
    for x, v in zip(fa, vals):
        if isinstance(v, list):
            if not isinstance(x, list) or len(x) != len(v):
                return False
            for sub, (sname, svals) in zip(x, v):
                conds.append(same_object(sub, sname, svals))
        else:
            conds.append(x == v)
    return And(*conds) if conds else True


def build(base, name, vals):
    cls = get_cls(base, name)
    args = []
    for v in vals:
        if isinstance(v, list):
            args.append([build("op", n, vs) for n, vs in v])
        else:
            args.append(v)
    return cls(*args)


def domain(base, name, vals, ps):
    kinds = table(base)[name][1]
    conds = []
    for k, v in zip(kinds, vals):
        if k == "block":
            for n, vs in v:
                conds.append(domain("op", n, vs, ps))
        else:
            conds.append(R.in_domain(k, v, ps))
    return And(*conds) if conds else True


def sym_operands(eng, prefix, kinds, cap, nested_choices=None, depth=1, fuse_bits=None):
    vals = []
    for i, k in enumerate(kinds):
        if k == "block":
            n_ops = eng.choose(prefix + "nops", nested_choices["lengths"])
            ops = []
            for j in range(n_ops):
                oname = eng.choose("%sop%d" % (prefix, j), nested_choices["classes"] if j == 0 else nested_choices["classes2"])
                ovals = sym_operands(eng, "%sop%d_" % (prefix, j), R.DW_OP[oname][1], cap, fuse_bits=fuse_bits)
                ops.append((oname, ovals))
            vals.append(ops)
        else:
            if k in R.FIXED:
                bits = 8 * R.FIXED[k][0] + 2  # across and just beyond the representable range
            elif k == "ptr":
                bits = 66
            elif k.startswith("fuse"):
                bits = 9 if fuse_bits is None else fuse_bits
            else:
                bits = cap
            vals.append(eng.int("%sv%d" % (prefix, i), -(2 ** bits), 2 ** bits))
    return vals


# ---------------------------------------------------------------------------
# family A: construct / encode / decode of each class
# ---------------------------------------------------------------------------
def h_roundtrip(eng, base, name, bo, ps, cap, nested):
    registry_check()
    kinds = table(base)[name][1]
    vals = sym_operands(eng, "", kinds, cap, nested)
    try:
        x = build(base, name, vals)
        built = True
    except ValueError:
        built = False
    dom0 = domain(base, name, vals, None)
    if not built:
        eng.check(Not(dom0), "constructor rejected operands the encoding can represent")
        return
    eng.check(dom0, "constructor accepted operands outside the encoding's range")
    try:
        b = x.encode(bo, ps)
        encoded = True
    except ValueError:
        encoded = False
    dom = domain(base, name, vals, ps)
    if not encoded:
        eng.check(Not(dom), "encode rejected representable operands")
        return
    eng.check(dom, "encode accepted operands outside the range for this pointer size")
    cond, end = match_op(eng, b, 0, base, name, vals, bo, ps)
    eng.check(end is not None and end == len(b), "encoding has the wrong layout", enc=repr(b))
    eng.check(cond, "encoding differs from the DWARF standard", enc=repr(b))
    d, n = base_cls(base).decode(reader(b), bo, ps)
    eng.check(n == len(b), "decode consumed %r of %d bytes" % (n, len(b)))
    eng.check(same_object(d, name, vals), "decode(encode(x)) != x")
    if base == "inst":
        directive, operands, u = x.gtirb_encoding(bo, ps)
        eng.check(u == uuid.UUID(int=0), "gtirb_encoding uuid is not the null uuid")
        want_dir = R.DW_CFA[name][2]
        eng.check(directive == want_dir, "directive %s, expected %s" % (directive, want_dir))
        if want_dir == ".cfi_escape":
            eng.check(len(operands) == len(b) and And(*[p == q for p, q in zip(operands, b)]),
                      "escape operands are not the encoded bytes")
        else:
            eng.check(len(operands) == len(vals) and And(*[p == q for p, q in zip(operands, vals)]),
                      "directive operands are not the field values")
        x.assembly_string(bo, ps)


def h_long_expr(eng, inst, body, last, bo, ps):
    """Expression operands whose body is around the 127/128-byte boundary of the ULEB128 length prefix."""
    registry_check()
    EXPR, CFI = _mods()
    if last == "plus":
        tail = [EXPR.OpPlus()]
        v = None
    else:
        v = eng.int("v", 0, 255)
        tail = [EXPR.OpConst1U(v)]
    ntail = 1 if last == "plus" else 2
    ops = [EXPR.OpDup() for _ in range(body - ntail)] + tail
    if inst == "def_cfa_expression":
        x = CFI.InstDefCFAExpression(ops)
        head = [0x0F]
    else:
        r = eng.int("r", 0, 127)
        x = CFI.InstExpression(r, ops) if inst == "expression" else CFI.InstValExpression(r, ops)
        head = [0x10 if inst == "expression" else 0x16, r]
    enc = x.encode(bo, ps)
    pref = [body] if body < 128 else [(body & 0x7F) | 0x80, body >> 7]
    want = head + pref + [0x12] * (body - ntail) + ([0x22] if last == "plus" else [0x08, v])
    eng.check(len(enc) == len(want) and And(*[p == q for p, q in zip(enc, want)]), "encoding of a %d-byte expression differs from the standard" % body)
    d, n = CFI.Instruction.decode(reader(enc), bo, ps)
    eng.check(n == len(enc), "decode consumed %r of %d bytes of an instruction with a %d-byte expression" % (n, len(enc), body))
    eng.check(type(d) is type(x) and len(d.expression) == len(ops) and type(d.expression[-1]) is type(ops[-1]),
              "decode(encode(x)) lost or changed operations of a %d-byte expression" % body)
    if v is not None:
        eng.check(d.expression[-1].value == v, "last operand of the decoded expression")
    nop = CFI.InstNop().encode(bo, ps)
    blob = enc + (nop if eng.sym else bytes(nop)) if eng.sym else bytes(enc) + bytes(nop)
    got = list(CFI.parse_cfi_instructions(blob, bo, ps))
    eng.check(len(got) == 2 and type(got[0]) is type(x) and type(got[1]).__name__ == "InstNop"
              and len(got[0].expression) == len(ops), "parse_cfi_instructions over [long expression instruction, nop]: %r" % (
                  [type(g).__name__ for g in got],))


def h_truncated(eng, base, name, bo, ps):
    """Every proper prefix of an encoding is a truncated input: decoding it must raise (EOFError/ValueError), never
    return an object built from bytes that are not there."""
    registry_check()
    kinds = table(base)[name][1]
    vals = sym_operands(eng, "", kinds, 7, None)
    eng.assume(domain(base, name, vals, ps))
    x = build(base, name, vals)
    enc = x.encode(bo, ps)
    full = [enc[i] for i in range(len(enc))]
    for k in range(len(full)):
        prefix = SBytes(full[:k]) if eng.sym else bytes(full[:k])
        try:
            d, n = base_cls(base).decode(reader(prefix), bo, ps)
        except (EOFError, ValueError):
            continue
        eng.fail("decode of the first %d of %d bytes of %s returned %r (consumed %r) instead of raising" % (k, len(full), name, d, n))
    eng.ok()


# ---------------------------------------------------------------------------
# family B: decode of arbitrary buffers
# ---------------------------------------------------------------------------
def sym_bytes(eng, prefix, n):
    return [eng.int("%s%d" % (prefix, i), 0, 255) for i in range(n)]


def mkbuf(eng, items):
    if eng.sym:
        return SBytes(items)
    return bytes(items)


def h_decode_any(eng, base, first_values, bo, ps, tail):
    registry_check()
    first = eng.choose("first", first_values)
    tbl = table(base)
    by_opcode = {}
    for name, entry in tbl.items():
        opcode, kinds = entry[0], entry[1]
        span = {"fuse32": 32, "fuse64": 64}.get(kinds[0], 1) if kinds else 1
        for i in range(span):
            by_opcode[opcode + i] = name
    name = by_opcode.get(first)
    kinds = tbl[name][1] if name else []
    if "block" in kinds:
        # [opcode][register?][length][one nested operation][its operand bytes]
        items = [first]
        if kinds[0] == "uleb":
            items.append(eng.int("reg", 0, 127))
        items.append(eng.int("len", 0, 127))
        nested_first = eng.choose("nested", list(range(256)))
        nname = None
        for oname, (opc, oks) in R.DW_OP.items():
            span = 32 if oks and oks[0] == "fuse32" else 1
            if opc <= nested_first < opc + span:
                nname = oname
        ntail = 0
        if nname:
            # exactly the operand bytes of the nested operation (LEB128 operands: one byte)
            for k in R.DW_OP[nname][1]:
                ntail += {"ptr": ps, "uleb": 1, "sleb": 1, "fuse32": 0}.get(k, R.FIXED.get(k, (0,))[0])
        items.append(nested_first)
        items += sym_bytes(eng, "n", ntail)
    else:
        items = [first] + sym_bytes(eng, "b", tail)
    buf = mkbuf(eng, items)
    try:
        d, n = base_cls(base).decode(reader(buf), bo, ps)
    except (ValueError, EOFError) as ex:
        if name is None:
            eng.ok("not modelled by the library: refusal is the specified outcome")
            return
        # a modelled opcode may only be refused for running off the buffer
        if "block" in kinds:
            eng.ok("refusal of a truncated or malformed block")
            return
        vals_possible, end = _ref_decode(eng, buf, base, name, bo, ps)
        eng.check(end is None, "decode refused a well-formed encoding: %s" % type(ex).__name__, buf=repr(buf))
        return
    eng.check(name is not None, "decode accepted a first byte that is not a modelled opcode", first=first)
    if not bool(n <= len(buf)):
        eng.ok("ran off the end of the buffer: outside the claim")
        return
    eng.check(type(d).__name__ == name, "decoded class %s, expected %s" % (type(d).__name__, name))
    if "block" not in kinds:
        vals, end = _ref_decode(eng, buf, base, name, bo, ps)
        eng.check(end is not None and n == end, "consumed %r bytes, reference consumed %r" % (n, end))
        eng.check(same_object(d, name, vals), "decoded operands differ from the reference decoder")
    # re-encode / re-decode
    try:
        b2 = d.encode(bo, ps)
    except ValueError:
        eng.fail("decoded object cannot be encoded")
    d2, n2 = base_cls(base).decode(reader(b2), bo, ps)
    eng.check(n2 == len(b2), "re-decode consumed %r of %d" % (n2, len(b2)))
    eng.check(_eq_obj(d, d2), "decode(encode(decode(buf))) differs")


def _eq_obj(a, b):
    if type(a) is not type(b):
        return False
    conds = []
    for x, y in zip(fields_of(a), fields_of(b)):
        if isinstance(x, list):
            if len(x) != len(y):
                return False
            conds += [_eq_obj(p, q) for p, q in zip(x, y)]
        else:
            conds.append(x == y)
    return And(*conds) if conds else True


def _ref_decode(eng, buf, base, name, bo, ps):
    """Independent decoder for non-block operands: -> (values, end) or (None, None)."""
    opcode, kinds = table(base)[name][0], table(base)[name][1]
    pos = 1
    vals = []
    for k in kinds:
        if k.startswith("fuse"):
            vals.append(buf[0] - opcode)
            continue
        if k in R.FIXED or k == "ptr":
            n, signed = R.FIXED[k] if k in R.FIXED else (ps, False)
            if pos + n > len(buf):
                return None, None
            items = list(buf[pos:pos + n])
            if bo == "big":
                items = items[::-1]
            t = 0
            for i, b in enumerate(items):
                t = t + b * (256 ** i)
            if signed:
                t = core.Ite(t >= 2 ** (8 * n - 1), t - 2 ** (8 * n), t)
            vals.append(t)
            pos += n
        else:
            end = leb_extent(buf, pos)
            if end is None:
                return None, None
            grp = list(buf[pos:end])
            t = 0
            for i, b in enumerate(grp):
                t = t + (b - core.Ite(b >= 128, 128, 0)) * (128 ** i)
            if k == "sleb":
                t = core.Ite(grp[-1] >= 64, t - 128 ** len(grp), t)
            vals.append(t)
            pos = end
    return vals, pos


# ---------------------------------------------------------------------------
# family C: parse_cfi_instructions inverts concatenation
# ---------------------------------------------------------------------------
def h_parse_concat(eng, first, others, count, bo, ps, cap, nested, tail_small=True):
    registry_check()
    EXPR, CFI = _mods()
    names = [first]
    for i in range(1, count):
        names.append(eng.choose("cls%d" % i, others))
    specs = []
    blob = SBytes() if eng.sym else b""
    for i, name in enumerate(names):
        vals = sym_operands(eng, "i%d_" % i, R.DW_CFA[name][1], cap, nested, fuse_bits=1)
        if i > 0 and tail_small:
            # later instructions: one encoding length each, so the tree stays linear in the sequence length
            def small(vs):
                for v in vs:
                    if isinstance(v, list):
                        for _, sub in v:
                            small(sub)
                    else:
                        eng.assume(And(v >= 0, v < 64))
            small(vals)
        eng.assume(domain("inst", name, vals, ps))
        x = build("inst", name, vals)
        enc = x.encode(bo, ps)
        blob = blob + (enc if eng.sym else bytes(enc))
        specs.append((name, vals))
    got = list(CFI.parse_cfi_instructions(blob, bo, ps))
    eng.check(len(got) == len(specs), "parsed %d instructions from %d" % (len(got), len(specs)))
    for g, (name, vals) in zip(got, specs):
        eng.check(same_object(g, name, vals), "parse_cfi_instructions did not return the concatenated instruction")


# ---------------------------------------------------------------------------
# family D: make_const_op
# ---------------------------------------------------------------------------
def h_make_const(eng, via_ctor, bo, ps):
    registry_check()
    EXPR, CFI = _mods()
    v = eng.int("v", -(2 ** 64), 2 ** 65)
    try:
        op = EXPR.OpConst(v) if via_ctor else EXPR.make_const_op(v)
    except ValueError:
        eng.check(Not(And(v >= -(2 ** 63), v < 2 ** 64)), "make_const_op refused a value in [-2^63, 2^64)")
        return
    eng.check(And(v >= -(2 ** 63), v < 2 ** 64), "make_const_op accepted a value outside [-2^63, 2^64)")
    name = type(op).__name__
    eng.check(name in R.CONST_CLASSES, "not a constant-pushing class: " + name)
    eng.check(op.value == v, "operation does not carry the requested value")
    eng.check(R.in_domain(R.DW_OP[name][1][0], v, ps), "value outside the chosen class's range (would push another value)")
    b = op.encode(bo, ps)
    for cname in R.CONST_CLASSES:
        eng.check(Not(R.const_encodable_within(cname, v, len(b) - 1)),
                  "%s encodes the value in fewer bytes than %s (%d)" % (cname, name, len(b)))
    cond, end = match_op(eng, b, 0, "op", name, [v], bo, ps)
    eng.check(end == len(b), "layout")
    eng.check(cond, "encoding differs from the DWARF standard")
    d, n = EXPR.Operation.decode(reader(b), bo, ps)
    eng.check(n == len(b), "consumed")
    eng.check(same_object(d, name, [v]), "decode(encode(make_const_op(v))) != v")


# ---------------------------------------------------------------------------
def classify(rec):
    # any exception type other than the documented refusals is a violation
    return "violation"


REPRESENTATIVE_OPS = ["OpDup", "OpLit", "OpConst1U", "OpConst2S", "OpConst8S", "OpAddr", "OpConstU", "OpConstS",
                      "OpBReg", "OpBRegX", "OpSkip"]


def make_check(tier):
    chk = run.Check("C14", tier)
    chk.install_shims = shims.install_dwarf
    chk.classify_exception = classify
    cap = CAP_BITS[tier]
    all_ops = sorted(R.DW_OP)
    nested_q = {"lengths": [0, 1], "classes": REPRESENTATIVE_OPS, "classes2": REPRESENTATIVE_OPS}
    nested_t = {"lengths": [0, 1, 2], "classes": all_ops, "classes2": ["OpDup", "OpLit", "OpConst2S", "OpConstU", "OpBReg"]}
    nested = nested_q if tier == "quick" else nested_t
    combos = [("little", 8), ("big", 4), ("little", 4), ("big", 8)]
    rt_combos = combos[:2] if tier == "quick" else combos
    for bo, ps in rt_combos:
        def cap_for(kinds):
            # one LEB128 operand: the full magnitude bound; two: a smaller one each (the tree is their product)
            nleb = sum(1 for k in kinds if k in ("uleb", "sleb"))
            return cap if nleb <= 1 else min(cap, 28)

        for name in sorted(R.DW_OP):
            chk.add("roundtrip/op/%s/%s%d" % (name, bo, ps), h_roundtrip,
                    params=dict(base="op", name=name, bo=bo, ps=ps, cap=cap_for(R.DW_OP[name][1]), nested=None))
        for name in sorted(R.DW_CFA):
            has_block = "block" in R.DW_CFA[name][1]
            chk.add("roundtrip/inst/%s/%s%d" % (name, bo, ps), h_roundtrip,
                    params=dict(base="inst", name=name, bo=bo, ps=ps, cap=(10 if has_block else cap_for(R.DW_CFA[name][1])),
                                nested=nested), timeout=3000)
    tail = 5 if tier == "quick" else 8
    dec_combos = combos[:2] if tier == "quick" else combos
    for bo, ps in dec_combos:
        for base in ("op", "inst"):
            for lo in range(0, 256, 16):
                chk.add("decode/%s/%02x/%s%d" % (base, lo, bo, ps), h_decode_any,
                        params=dict(base=base, first_values=list(range(lo, lo + 16)), bo=bo, ps=ps, tail=tail),
                        timeout=1500)
    insts = sorted(R.DW_CFA)
    for base_, tbl_ in (("op", R.DW_OP), ("inst", R.DW_CFA)):
        for name in sorted(tbl_):
            if "block" in tbl_[name][1]:
                continue  # nested expressions: the length prefix case is longexpr/*
            chk.add("truncated/%s/%s" % (base_, name), h_truncated, params=dict(base=base_, name=name, bo="little", ps=8), timeout=600)
    for inst in ("def_cfa_expression", "expression", "val_expression"):
        for body in ((127, 128, 129) if tier == "quick" else (126, 127, 128, 129, 130, 255, 256)):
            for last in ("plus", "const1u"):
                chk.add("longexpr/%s/%d/%s" % (inst, body, last), h_long_expr,
                        params=dict(inst=inst, body=body, last=last, bo="little", ps=8), timeout=600)
    small_nested = {"lengths": [1], "classes": ["OpBReg", "OpLit"], "classes2": ["OpDup"]}
    rep2 = ["InstNop", "InstDefCFA", "InstOffset", "InstRestore", "InstDefCFAOffsetSF", "InstExpression",
            "InstRememberState", "InstValOffsetSF"]
    for bo, ps in combos[:2]:
        for name in insts:
            chk.add("concat2/%s/%s%d" % (name, bo, ps), h_parse_concat,
                    params=dict(first=name, others=(rep2 if tier == "quick" else insts), count=2, bo=bo, ps=ps,
                                cap=(7 if tier == "quick" else 8), nested=small_nested), timeout=1500)
        if tier == "thorough":
            rep = ["InstNop", "InstDefCFA", "InstOffset", "InstRestore", "InstDefCFAOffsetSF", "InstExpression",
                   "InstRememberState", "InstValOffsetSF"]
            for name in insts:
                chk.add("concat3/%s/%s%d" % (name, bo, ps), h_parse_concat,
                        params=dict(first=name, others=rep, count=3, bo=bo, ps=ps, cap=8, nested=small_nested), timeout=3000)
    for bo, ps in combos:
        for via in (False, True):
            chk.add("make_const/%s/%s%d" % ("OpConst" if via else "make_const_op", bo, ps), h_make_const,
                    params=dict(via_ctor=via, bo=bo, ps=ps))
    chk.bounds = {
        "truncated input": "every proper prefix of the encoding of every operation/instruction without a nested expression",
        "long expressions": "expression bodies of 127-129 bytes (thorough: 126-130, 255, 256) around the length prefix boundary, last operation one or two bytes",
        "operand magnitude": "|v| <= 2^%d for classes with one LEB128 operand, 2^%d each for two, 2^10 inside nested expressions "
                             "(LEB128 loops unroll by path forking; larger operands outside the claim)" % (cap, min(cap, 28)),
        "nested expression length": nested["lengths"],
        "arbitrary-buffer decode": "first byte: all 256 (enumerated); %d following bytes symbolic in [0,255]; "
                                   "expression-carrying instructions: one nested operation, length and register 1 byte" % tail,
        "concatenations": ("2 instructions (every first class x 8 representative second classes)" if tier == "quick" else
                           "2 instructions (all pairs); 3 with a representative middle/last set"),
        "byte order x pointer size": [list(c) for c in combos],
        "make_const_op": "v in [-2^64, 2^65] (accept iff in [-2^63, 2^64))",
    }
    chk.assumptions = [
        "namespace shims (symx/shims.install_dwarf): len/bytearray/ord/range/int.from_bytes/int.to_bytes/io.BytesIO "
        "replaced per module so proxies are not concretised; validated by concrete replay of z3 witnesses on the unshimmed code",
        "b''.join in _ExprEncoder.encode recompiled from current source with the join rewritten (AST)",
        "opcode registry wrapped in ConcretizingDict (enumerates feasible keys when indexed symbolically)",
        "reference tables in oracle/dwarf_ref.py transcribe DWARF v4 figures 24 and 40",
        "leb128 (third-party) is executed as part of the encoders",
    ]
    return chk
