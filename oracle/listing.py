"""Listing model: a section is a sequence of items (labels, atoms, insertion
slots, gap bytes).  Edits are 'insert these items at this slot' and 'remove
these atoms'.  Everything the properties C01-C09 talk about is read off the
final item list.  Imports nothing from gtirb_rewriting.

Order of items at a block boundary (rules R1/R2 of DESIGN.md 4.1):
  ... last atom of A, [patches inserted at the end of A], end labels of A,
  [gap bytes], start labels of B, [patches inserted at offset 0 of B], first
  atom of B ...
"""
import capstone

from symx.core import Rope

FALLS_THROUGH = ("o", "call", "icall", "jcc", "lea", "sys", "rcall")


class Item:
    def __init__(self, t, **kw):
        self.t = t  # label | atom | slot | gap
        self.__dict__.update(kw)

    def __repr__(self):
        d = dict(self.__dict__)
        d.pop("rope", None)
        return "Item(%r)" % d


# vocabulary of patches: token lists (see harness/srh.Scenario.make_patch)
def patch_tokens(name, mi):
    table = {
        "mov": ["o"],
        "two": ["o", "o"],
        "label": ["o", "L:pl_%d" % mi, "o"],
        "jcc_tmp": ["o", "jcc:.Lskip", "o", "L:.Lskip", "o"],
        "ret": ["o", "ret"],
        "icall": ["o", "icall"],
        "byte": ["d:2"],
        "quad": ["d:8"],
        "selfloop": ["L:.Lx", "o", "jcc:.Lx"],
        "func_body": ["o", "jcc:.Lz", "o", "L:.Lz", "ret"],
        "func_simple": ["o", "ret"],
        "trail_label": ["o", "L:tl_%d" % mi],
        "trail_label_data": ["d:1", "L:tl_%d" % mi],
        "string": ["d:3"],
        "lead_align4": ["L:pl_%d" % mi, "o"],
        "lead_align16": ["L:pl_%d" % mi, "o"],
        "alias_data": ["jmp:.Lskip", "L:t1_%d" % mi, "L:t2_%d" % mi, "d:1", "L:.Lskip", "o"],
    }
    if name.startswith("jmp:"):
        return ["o", "jmp:" + name[4:]]
    if name.startswith("call:"):
        return ["o", "call:" + name[5:], "o"]
    if name.startswith("twocalls:"):
        return ["o", "call:" + name[9:], "o", "call:" + name[9:], "o"]
    if name.startswith("lea:"):
        return ["lea:" + name[4:], "o"]
    if name.startswith("dq:"):
        return ["q:" + name[3:], "d:1"]
    if name.startswith("ripimm:"):
        return ["x:2:%s:0:4" % name[7:]]  # mov dword ptr [rip+sym], imm32: disp32 at +2, then the immediate
    if name.startswith("ripimm4:"):
        return ["x:2:%s:4:4" % name[8:]]  # cmp byte ptr [rip+sym+4], imm8
    if name.startswith("cfiraw:"):
        # the statements exactly as written (no instruction added in front or behind)
        toks = []
        for d in name[7:].split(";"):
            d = d.strip()
            if d.startswith(".cfi"):
                toks.append("cfi:" + d)
            elif d.endswith(":"):
                toks.append("L:" + d[:-1])
            elif d.startswith("jmp "):
                toks.append("jmp:" + d[4:])
            else:
                toks.append("o")
        return toks
    if name.startswith("cfi:"):
        toks = ["o"]
        for d in name[4:].split(";"):
            d = d.strip()
            if d.startswith(".cfi"):
                toks.append("cfi:" + d)
            elif d.endswith(":"):
                toks.append("L:" + d[:-1])  # a label between the directives of a patch
            elif d.startswith("jmp "):
                toks.append("jmp:" + d[4:])
            else:
                toks.append("o")
        toks.append("o")
        return toks
    return table[name]


_MD = {}


def insn_lengths(data, isa="x64"):
    if isa not in _MD:
        if isa == "x64":
            _MD[isa] = capstone.Cs(capstone.CS_ARCH_X86, capstone.CS_MODE_64)
        else:
            _MD[isa] = capstone.Cs(capstone.CS_ARCH_ARM64, capstone.CS_MODE_ARM)
    return [(i.size, i.mnemonic) for i in _MD[isa].disasm(bytes(data), 0)]


def patch_items(name, mi, data, blk, func, isa="x64"):
    """Items of an assembled patch.  Instruction lengths come from an
    independent disassembler (capstone) run over the assembled bytes."""
    toks = patch_tokens(name, mi)
    items = []
    pos = 0
    data = bytes(data)
    for tk in toks:
        kind, _, arg = tk.partition(":")
        if kind == "L":
            items.append(Item("label", sym=arg, end=False, blk=None, patch=mi, temp=arg.startswith(".L")))
            continue
        if kind == "cfi":
            parts = arg.replace(",", " ").split()
            items.append(Item("cfi", name=parts[0], operands=[int(x, 0) for x in parts[1:]], patch=mi, blk=None,
                              orig=False, cls="must", before=None, after=None))
            continue
        if kind == "d":
            n = int(arg)
            code = False
            target = None
            expr = None
        elif kind == "q":
            n = 8
            code = False
            target = None
            expr = (0, arg, 4, 8)
        else:
            dec = insn_lengths(data[pos:pos + 15], isa)
            if not dec:
                raise ValueError("patch %s: cannot decode at %d" % (name, pos))
            n = dec[0][0]
            code = True
            target = arg or None
            expr = None
            if kind == "x":
                xo, xs, xa, xw = arg.split(":")
                expr = (int(xo), xs, int(xa), int(xw))
                target = None
                kind = "o"
            elif kind in ("jmp", "jcc", "call") and isa == "arm64":
                expr = (0, arg, 0, 4)
            elif kind in ("jmp", "jcc", "call"):
                w = 1 if n == 2 else 4
                expr = (n - w, arg, 0, w)
            elif kind == "lea":
                expr = (n - 4, arg, 0, 4)
        items.append(Item("atom", id="p%d_%d" % (mi, pos), kind=kind if code else "d", target=target, length=n,
                          rope=Rope.lit(data[pos:pos + n]), blk=blk, code=code, orig=False, patch=mi, func=func,
                          expr=expr, annots=[]))
        pos += n
    if pos != len(data):
        raise ValueError("patch %s: tokens cover %d of %d bytes" % (name, pos, len(data)))
    return items


class Listing:
    def __init__(self):
        self.sections = {}  # name -> [Item]
        self.block_func = {}
        self.block_code = {}
        self.block_section = {}
        self.label_block = {}
        self.ext = set()
        self.entries = {}

    @staticmethod
    def from_scenario(sc):
        ls = Listing()
        ls.ext = set(sc.spec.get("ext", []))
        for ss in sc.spec["sections"]:
            items = []
            for bs in ss["blocks"]:
                bid = bs["id"]
                ls.block_func[bid] = bs.get("func")
                ls.block_code[bid] = bs["kind"] == "code"
                ls.block_section[bid] = ss["name"]
                if bs.get("entry") or (bs.get("func") and bs["func"] not in ls.entries):
                    ls.entries.setdefault(bs.get("func"), [])
                if bid in sc.gaps:
                    gsrc, glen = sc.gaps[bid]
                    items.append(Item("gap", rope=Rope.src(gsrc, glen), length=glen, blk=None))
                for s in bs.get("syms", []):
                    items.append(Item("label", sym=s, end=False, blk=bid, patch=None, temp=False))
                    ls.label_block[s] = bid
                atoms = sc.atoms[bid]
                cfi_at = {}
                for c in sc.spec.get("cfi", []):
                    if c["blk"] == bid:
                        cfi_at.setdefault(c["at"], []).extend(c["dirs"])

                def put_cfi(j, post):
                    """directives at boundary j: those before the first .cfi_endproc precede the insertion slot,
                    the endproc and everything after it follow the slot (split rule of the library, R9)"""
                    dirs = cfi_at.get(j, [])
                    k = next((i for i, d in enumerate(dirs) if d[0] == ".cfi_endproc"), len(dirs))
                    for d in (dirs[k:] if post else dirs[:k]):
                        items.append(Item("cfi", name=d[0], operands=list(d[1]), sym=(d[2] if len(d) > 2 else None),
                                          patch=None, blk=bid, orig=True, cls="must",
                                          before=(j - 1 if j > 0 else None), after=(j if j < len(atoms) else None)))

                put_cfi(0, False)
                items.append(Item("slot", blk=bid, j=0))
                put_cfi(0, True)
                for j, a in enumerate(atoms):
                    items.append(Item("atom", id=a.id, kind=a.kind, target=a.target, length=a.length, rope=a.rope(),
                                      blk=bid, idx=j, code=a.code, orig=True, patch=None, func=bs.get("func"),
                                      annots=a.annots, expr=None))
                    put_cfi(j + 1, False)
                    items.append(Item("slot", blk=bid, j=j + 1))
                    put_cfi(j + 1, True)
                for s in bs.get("esyms", []):
                    items.append(Item("label", sym=s, end=True, blk=bid, patch=None, temp=False))
            tail = sc.gaps.get("tail:" + ss["name"])
            if tail:
                items.append(Item("gap", rope=Rope.src(tail[0], tail[1]), length=tail[1], blk=None))
            ls.sections[ss["name"]] = items
        return ls

    # ---- control flow of a listing at block granularity (input CFG) -----------
    def block_edges(self):
        """(src block, kind, dst block | 'ext:name' | None, conditional, direct)
        for the ORIGINAL listing, derived per rules R3-R5."""
        edges = []
        call_sites = {}  # function -> [fallthrough block of a call targeting it]
        last_atoms = []
        for name, items in self.sections.items():
            seq = [it for it in items if it.t in ("atom", "gap")]
            for i, it in enumerate(seq):
                if it.t != "atom" or not it.code:
                    continue
                nxt = seq[i + 1] if i + 1 < len(seq) else None
                if nxt is not None and nxt.t == "atom" and nxt.blk == it.blk:
                    continue  # not the last atom of its block
                nxt_blk = nxt.blk if (nxt is not None and nxt.t == "atom" and nxt.code) else None
                last_atoms.append((it, nxt_blk))
        for it, nxt_blk in last_atoms:
            ft = nxt_blk if it.kind in FALLS_THROUGH else None
            if ft is not None:
                edges.append((it.blk, "fallthrough", ft, False, True))
            if it.kind in ("jmp", "jcc"):
                edges.append((it.blk, "branch", self._target(it.target), it.kind == "jcc", True))
            elif it.kind == "call":
                tgt = self._target(it.target)
                edges.append((it.blk, "call", tgt, False, True))
                if ft is not None and not tgt.startswith("ext:"):
                    f = self.block_func.get(tgt)
                    if f:
                        call_sites.setdefault(f, [])
                        if ft not in call_sites[f]:
                            call_sites[f].append(ft)
            elif it.kind == "rcall":
                # an indirect call whose target the analysis resolved: Call edge with direct=False to the function's block
                tgt = self._target(it.target)
                edges.append((it.blk, "call", tgt, False, False))
                if ft is not None and not tgt.startswith("ext:"):
                    f = self.block_func.get(tgt)
                    if f:
                        call_sites.setdefault(f, [])
                        if ft not in call_sites[f]:
                            call_sites[f].append(ft)
            elif it.kind == "ijmp":
                edges.append((it.blk, "branch", None, False, False))
            elif it.kind == "icall":
                edges.append((it.blk, "call", None, False, False))
            elif it.kind == "sys":
                edges.append((it.blk, "syscall", None, False, True))
        for it, nxt_blk in last_atoms:
            if it.kind == "ret":
                f = self.block_func.get(it.blk)
                sites = call_sites.get(f, []) if f else []
                if sites:
                    for s in sites:
                        edges.append((it.blk, "return", s, False, True))
                else:
                    edges.append((it.blk, "return", None, False, True))
        return edges

    def _target(self, label):
        if label in self.ext:
            return "ext:" + label
        return self.label_block[label]

    # ---- edits ------------------------------------------------------------------
    def _find_slot(self, blk, j):
        for name, items in self.sections.items():
            for i, it in enumerate(items):
                if it.t == "slot" and it.blk == blk and it.j == j:
                    return items, i
        raise KeyError((blk, j))

    def in_procedure(self, blk, j):
        """Is insertion slot (blk, j) inside a CFI procedure of the listing?"""
        items, i = self._find_slot(blk, j)
        depth = 0
        for it in items[:i]:
            if it.t == "cfi" and it.name == ".cfi_startproc":
                depth += 1
            elif it.t == "cfi" and it.name == ".cfi_endproc":
                depth -= 1
        return depth > 0

    def insert(self, blk, j, new_items):
        items, i = self._find_slot(blk, j)
        if any(it.t == "cfi" for it in new_items) and not self.in_procedure(blk, j):
            new_items = [it for it in new_items if it.t != "cfi"]  # outside a procedure the patch's CFI is discarded
        items[i:i] = new_items

    def delete(self, blk, j, k, proxy=False):
        items, _ = self._find_slot(blk, j)
        natoms = sum(1 for it in items if it.t == "atom" and it.orig and it.blk == blk)
        whole = j == 0 and k == natoms
        # directives that describe the procedure or its state stack, not an instruction: never dropped with a deletion
        structural = (".cfi_startproc", ".cfi_endproc", ".cfi_remember_state", ".cfi_restore_state",
                      ".cfi_personality", ".cfi_lsda", ".cfi_return_column")
        for it in items:
            if it.t == "cfi" and it.orig and it.blk == blk:
                adjacent = [a for a in (it.before, it.after) if a is not None]
                if it.name not in structural and any(j <= a < k for a in adjacent):
                    it.cls = "may"
        items[:] = [it for it in items if not (it.t == "atom" and it.orig and it.blk == blk and j <= it.idx < k)]
        if whole and proxy:
            for it in items:
                if it.t == "label" and it.blk == blk:
                    it.proxy = True
        elif whole and not any(it.t == "atom" and it.blk == blk for it in items):
            self._slide_labels(items, blk)
        return whole

    def _slide_labels(self, items, blk):
        """Labels of a wholly deleted block move to the next block (start) or,
        when there is none, to the end of the previous block (doc/Deletion.md);
        with gap bytes in between that is a different listing position."""
        mine = [it for it in items if it.t == "label" and it.blk == blk]
        if not mine:
            return
        anchor = next(i for i, it in enumerate(items) if it.t == "slot" and it.blk == blk)
        nxt = next((it for it in items[anchor:] if it.blk is not None and it.blk != blk), None)
        prev = next((it for it in reversed(items[:anchor]) if it.blk is not None and it.blk != blk), None)
        for it in mine:
            items.remove(it)
        if nxt is not None:
            i = items.index(nxt)
            items[i:i] = mine
        elif prev is not None:
            i = items.index(prev) + 1
            items[i:i] = mine
        else:
            i = next(i for i, it in enumerate(items) if it.t == "slot" and it.blk == blk)
            items[i:i] = mine

    def mark_empty_procedures(self):
        """A procedure that no longer covers any instruction (all of its code
        was deleted) may be dropped as a unit: startproc, endproc and all
        directives in between."""
        n = 0
        for items in self.sections.values():
            start = None
            for i, it in enumerate(items):
                if it.t == "cfi" and it.name == ".cfi_startproc":
                    start = i
                elif it.t == "atom" and it.code:
                    start = None
                elif it.t == "cfi" and it.name == ".cfi_endproc" and start is not None:
                    n += 1
                    for x in items[start:i + 1]:
                        if x.t == "cfi":
                            x.cls = "unit%d" % n
                    start = None

    def append_function(self, section, name, items):
        """A function inserted by the rewrite: its own run of items at the end of the section, labelled by its symbol."""
        seq = self.sections[section]
        blk = "new:" + name
        self.block_func[blk] = blk
        self.block_code[blk] = True
        self.block_section[blk] = section
        seq.append(Item("label", sym=name, end=False, blk=blk, patch=None, temp=False))
        for it in items:
            if it.t == "atom":
                it.blk = blk
                it.func = blk
            seq.append(it)

    # ---- read-offs ----------------------------------------------------------------
    def rope(self, section):
        r = Rope()
        for it in self.sections[section]:
            if it.t in ("atom", "gap"):
                r = r + it.rope
        return r

    def positions(self, section):
        """[(item, byte position)] for every item of the section."""
        out = []
        pos = 0
        for it in self.sections[section]:
            out.append((it, pos))
            if it.t in ("atom", "gap"):
                pos = pos + it.length
        return out, pos
