"""Reference description of the DWARF v4 encodings, typed in from the standard
(DWARF v4 section 7.7.1 figure 24 'DWARF operation encodings', section 7.23
figure 40 'Call frame instruction encodings', section 7.6 LEB128).  Imports
nothing from gtirb_rewriting.

Operand kinds: u1 u2 u4 u8 s1 s2 s4 s8 (fixed width), ptr (target address),
uleb, sleb, fuse32 / fuse64 (operand added to the opcode byte), block
(ULEB128 length followed by that many bytes of DWARF expression).
"""
from symx.core import And, Ite, Not, Or

# class name -> (opcode, [operand kinds])
DW_OP = {
    "OpAddr": (0x03, ["ptr"]),
    "OpDeref": (0x06, []),
    "OpConst1U": (0x08, ["u1"]),
    "OpConst1S": (0x09, ["s1"]),
    "OpConst2U": (0x0A, ["u2"]),
    "OpConst2S": (0x0B, ["s2"]),
    "OpConst4U": (0x0C, ["u4"]),
    "OpConst4S": (0x0D, ["s4"]),
    "OpConst8U": (0x0E, ["u8"]),
    "OpConst8S": (0x0F, ["s8"]),
    "OpConstU": (0x10, ["uleb"]),
    "OpConstS": (0x11, ["sleb"]),
    "OpDup": (0x12, []),
    "OpDrop": (0x13, []),
    "OpOver": (0x14, []),
    "OpPick": (0x15, ["u1"]),
    "OpSwap": (0x16, []),
    "OpRot": (0x17, []),
    "OpXDeref": (0x18, []),
    "OpAbs": (0x19, []),
    "OpAnd": (0x1A, []),
    "OpDiv": (0x1B, []),
    "OpMinus": (0x1C, []),
    "OpMod": (0x1D, []),
    "OpMul": (0x1E, []),
    "OpNeg": (0x1F, []),
    "OpNot": (0x20, []),
    "OpOr": (0x21, []),
    "OpPlus": (0x22, []),
    "OpPlusUConst": (0x23, ["uleb"]),
    "OpShl": (0x24, []),
    "OpShr": (0x25, []),
    "OpShrA": (0x26, []),
    "OpXor": (0x27, []),
    "OpBra": (0x28, ["s2"]),
    "OpEq": (0x29, []),
    "OpGe": (0x2A, []),
    "OpGt": (0x2B, []),
    "OpLe": (0x2C, []),
    "OpLt": (0x2D, []),
    "OpNe": (0x2E, []),
    "OpSkip": (0x2F, ["s2"]),
    "OpLit": (0x30, ["fuse32"]),
    "OpReg": (0x50, ["fuse32"]),
    "OpBReg": (0x70, ["fuse32", "sleb"]),
    "OpRegX": (0x90, ["uleb"]),
    "OpBRegX": (0x92, ["uleb", "sleb"]),
    "OpDerefSize": (0x94, ["u1"]),
}

# class name -> (opcode, [operand kinds], assembler directive)
DW_CFA = {
    "InstNop": (0x00, [], ".cfi_escape"),
    "InstOffsetExtended": (0x05, ["uleb", "uleb"], ".cfi_escape"),
    "InstRestoreExtended": (0x06, ["uleb"], ".cfi_escape"),
    "InstUndefined": (0x07, ["uleb"], ".cfi_undefined"),
    "InstSameValue": (0x08, ["uleb"], ".cfi_same_value"),
    "InstRegister": (0x09, ["uleb", "uleb"], ".cfi_register"),
    "InstRememberState": (0x0A, [], ".cfi_remember_state"),
    "InstRestoreState": (0x0B, [], ".cfi_restore_state"),
    "InstDefCFA": (0x0C, ["uleb", "uleb"], ".cfi_def_cfa"),
    "InstDefCFARegister": (0x0D, ["uleb"], ".cfi_def_cfa_register"),
    "InstDefCFAOffset": (0x0E, ["uleb"], ".cfi_escape"),
    "InstDefCFAExpression": (0x0F, ["block"], ".cfi_escape"),
    "InstExpression": (0x10, ["uleb", "block"], ".cfi_escape"),
    "InstOffsetExtendedSF": (0x11, ["uleb", "sleb"], ".cfi_escape"),
    "InstDefCFASF": (0x12, ["uleb", "sleb"], ".cfi_escape"),
    "InstDefCFAOffsetSF": (0x13, ["sleb"], ".cfi_escape"),
    "InstValOffset": (0x14, ["uleb", "uleb"], ".cfi_escape"),
    "InstValOffsetSF": (0x15, ["uleb", "sleb"], ".cfi_escape"),
    "InstValExpression": (0x16, ["uleb", "block"], ".cfi_escape"),
    "InstOffset": (0x80, ["fuse64", "uleb"], ".cfi_escape"),
    "InstRestore": (0xC0, ["fuse64"], ".cfi_restore"),
}

FIXED = {"u1": (1, False), "u2": (2, False), "u4": (4, False), "u8": (8, False),
         "s1": (1, True), "s2": (2, True), "s4": (4, True), "s8": (8, True)}


def in_domain(kind, v, ptr_size=None):
    """Values the standard's encoding of this operand kind can represent.
    ptr_size None: the width-independent part (what a constructor can know)."""
    if kind in FIXED:
        n, signed = FIXED[kind]
        if signed:
            return And(v >= -(2 ** (8 * n - 1)), v < 2 ** (8 * n - 1))
        return And(v >= 0, v < 2 ** (8 * n))
    if kind == "ptr":
        if ptr_size is None:
            return v >= 0
        return And(v >= 0, v < 2 ** (8 * ptr_size))
    if kind == "uleb":
        return v >= 0
    if kind == "sleb":
        return True
    if kind == "fuse32":
        return And(v >= 0, v < 32)
    if kind == "fuse64":
        return And(v >= 0, v < 64)
    raise KeyError(kind)


MAX_LEB_BYTES = 12


def uleb_len(v):
    """Length of the (shortest) ULEB128 encoding of v >= 0, fork-free."""
    n = 1
    for k in range(1, MAX_LEB_BYTES):
        n = n + Ite(v >= 128 ** k, 1, 0)
    return n


def sleb_len(v):
    """Smallest n with -2^(7n-1) <= v < 2^(7n-1), fork-free."""
    n = 1
    for k in range(1, MAX_LEB_BYTES):
        fits = And(v >= -(2 ** (7 * k - 1)), v < 2 ** (7 * k - 1))
        n = n + Ite(fits, 0, 1)
    return n


def fixed_bytes_ok(bs, v, n, signed, byteorder):
    """bs (n byte values) is the n-byte two's complement / unsigned encoding."""
    items = list(bs)
    if len(items) != n:
        return False
    if byteorder == "big":
        items = items[::-1]
    total = 0
    conds = []
    for i, b in enumerate(items):
        conds.append(And(b >= 0, b <= 255))
        total = total + b * (256 ** i)
    if signed:
        conds.append(Or(And(v >= 0, total == v), And(v < 0, total == v + 256 ** n)))
    else:
        conds.append(total == v)
    return And(*conds)


def uleb_bytes_ok(bs, v):
    """bs is the canonical ULEB128 encoding of v (DWARF v4 7.6, figure 22)."""
    items = list(bs)
    n = len(items)
    if n == 0:
        return False
    conds = []
    total = 0
    for i, b in enumerate(items):
        conds.append(And(b >= 0, b <= 255))
        conds.append(b >= 128 if i < n - 1 else b < 128)
        total = total + (b - Ite(b >= 128, 128, 0)) * (128 ** i)
    conds.append(total == v)
    if n > 1:
        conds.append(v >= 128 ** (n - 1))  # shortest form
    return And(*conds)


def sleb_bytes_ok(bs, v):
    items = list(bs)
    n = len(items)
    if n == 0:
        return False
    conds = []
    total = 0
    for i, b in enumerate(items):
        conds.append(And(b >= 0, b <= 255))
        conds.append(b >= 128 if i < n - 1 else b < 128)
        total = total + (b - Ite(b >= 128, 128, 0)) * (128 ** i)
    last = items[-1]
    sign = last >= 64  # bit 6 of the final byte is the sign
    conds.append(Or(And(Not(sign), total == v), And(sign, total - 128 ** n == v)))
    conds.append(And(v >= -(2 ** (7 * n - 1)), v < 2 ** (7 * n - 1)))
    if n > 1:
        conds.append(Not(And(v >= -(2 ** (7 * (n - 1) - 1)), v < 2 ** (7 * (n - 1) - 1))))
    return And(*conds)


def leb_fits(kind, v, n):
    """v has a (canonical) LEB128 encoding of at most n bytes."""
    if n <= 0:
        return False
    if kind == "uleb":
        return And(v >= 0, v < 128 ** n)
    return And(v >= -(2 ** (7 * n - 1)), v < 2 ** (7 * n - 1))


CONST_CLASSES = ["OpLit", "OpConst1U", "OpConst1S", "OpConst2U", "OpConst2S", "OpConst4U", "OpConst4S",
                 "OpConst8U", "OpConst8S", "OpConstU", "OpConstS"]


def const_encodable_within(name, v, m):
    """Constant-pushing class `name` accepts v and encodes it in <= m bytes."""
    kind = DW_OP[name][1][0]
    if kind == "fuse32":
        return And(in_domain(kind, v), m >= 1)
    if kind in FIXED:
        return And(in_domain(kind, v), m >= 1 + FIXED[kind][0])
    return leb_fits(kind, v, m - 1)
