"""Reference interpreter for CFI directive sequences (DWARF v4 section 6.4.2
'Call frame instructions', and the GNU as meaning of the .cfi_* directives).
Imports nothing from gtirb_rewriting.  Works on concrete ints and on symx
proxies: register equality is decided with bool(a == b), which the engine
resolves from the path condition (and forks on when it is still open).

Directive form: (name, [operands], symbol_marker) where symbol_marker is
"sym:<name>" for a present symbol, "null" for the null UUID, "uuid" for a
dangling UUID.  Escapes carry their decoded meaning in the operands:
(".cfi_escape", [("def_cfa_expression", ops) | ("expression", reg, ops) |
("val_expression", reg, ops) | ("nop",)], "null").
"""
import copy


class RefError(Exception):
    def __init__(self, kind, why):
        super().__init__(why)
        self.kind = kind  # "state" -> CFIStateError, "value" -> ValueError


class Row:
    def __init__(self):
        self.regs = []  # [(register term, rule tuple)]
        self.cfa = None

    def copy(self):
        r = Row()
        r.regs = list(self.regs)
        r.cfa = self.cfa
        return r

    def find(self, reg):
        for i, (k, _) in enumerate(self.regs):
            if bool(k == reg):
                return i
        return None

    def set(self, reg, rule):
        i = self.find(reg)
        if i is None:
            self.regs.append((reg, rule))
        else:
            self.regs[i] = (reg, rule)

    def drop(self, reg):
        i = self.find(reg)
        if i is not None:
            del self.regs[i]


class Proc:
    def __init__(self, return_column):
        self.return_column = return_column
        self.personality = None
        self.lsda = None
        self.current = Row()
        self.initial = Row()
        self.stack = []

    def snapshot(self):
        p = Proc(self.return_column)
        p.personality = self.personality
        p.lsda = self.lsda
        p.current = self.current.copy()
        p.initial = self.initial.copy()
        p.stack = [r.copy() for r in self.stack]
        return p


OMIT = 0xFF


def _pointer(encoding, marker):
    if encoding == OMIT:
        return None
    if not marker.startswith("sym:"):
        raise RefError("value", "personality/lsda without a symbol")
    return (encoding, marker[4:])


def step(state, directive, default_return_column):
    """-> (new state or None, started_procedure)"""
    name, args, marker = directive
    if name == ".cfi_startproc":
        if state is not None:
            raise RefError("state", "startproc inside a procedure")
        return Proc(default_return_column), True
    if state is None:
        raise RefError("state", "directive outside a procedure")
    cur = state.current
    if name == ".cfi_endproc":
        return None, False
    if name == ".cfi_personality":
        state.personality = _pointer(args[0], marker)
    elif name == ".cfi_lsda":
        state.lsda = _pointer(args[0], marker)
    elif name == ".cfi_return_column":
        state.return_column = args[0]
    elif name == ".cfi_def_cfa":
        cur.cfa = ("regoff", args[0], args[1])
    elif name == ".cfi_def_cfa_register":
        if cur.cfa is None or cur.cfa[0] != "regoff":
            raise RefError("state", "def_cfa_register without register+offset CFA")
        cur.cfa = ("regoff", args[0], cur.cfa[2])
    elif name == ".cfi_def_cfa_offset":
        if cur.cfa is None or cur.cfa[0] != "regoff":
            raise RefError("state", "def_cfa_offset without register+offset CFA")
        cur.cfa = ("regoff", cur.cfa[1], args[0])
    elif name == ".cfi_adjust_cfa_offset":
        if cur.cfa is None or cur.cfa[0] != "regoff":
            raise RefError("state", "adjust_cfa_offset without register+offset CFA")
        cur.cfa = ("regoff", cur.cfa[1], cur.cfa[2] + args[0])
    elif name == ".cfi_undefined":
        cur.set(args[0], ("undefined",))
    elif name == ".cfi_same_value":
        cur.set(args[0], ("same_value",))
    elif name == ".cfi_register":
        cur.set(args[0], ("register", args[1]))
    elif name == ".cfi_val_offset":
        cur.set(args[0], ("val_offset", args[1]))
    elif name == ".cfi_offset":
        cur.set(args[0], ("offset", args[1]))
    elif name == ".cfi_rel_offset":
        # not a DWARF instruction; the library documents it as relative to the
        # register's current CFA+offset rule (tests/test_dwarf_cfi_eval.py)
        i = cur.find(args[0])
        if i is None or cur.regs[i][1][0] != "offset":
            raise RefError("state", "rel_offset on a register that is not CFA+offset")
        cur.set(args[0], ("offset", cur.regs[i][1][1] + args[1]))
    elif name == ".cfi_restore":
        i = state.initial.find(args[0])
        if i is not None:
            cur.set(args[0], state.initial.regs[i][1])
        else:
            cur.drop(args[0])
    elif name == ".cfi_remember_state":
        state.stack.append(cur.copy())
    elif name == ".cfi_restore_state":
        if not state.stack:
            raise RefError("state", "restore_state on an empty stack")
        state.current = state.stack.pop()
    elif name == ".cfi_escape":
        for inst in args:
            if inst[0] == "def_cfa_expression":
                state.current.cfa = ("expr", inst[1])
            elif inst[0] == "expression":
                state.current.set(inst[1], ("at_expr", inst[2]))
            elif inst[0] == "val_expression":
                state.current.set(inst[1], ("is_expr", inst[2]))
            elif inst[0] == "nop":
                pass
            else:
                raise KeyError(inst[0])
    else:
        raise KeyError(name)
    return state, False


def evaluate(rows, default_return_column):
    """rows: [[directive, ...], ...] already in address order.
    Yields per row ("state", snapshot-or-None) or ("error", kind); stops at
    the first error."""
    state = None
    for directives in rows:
        started = False
        try:
            for d in directives:
                state, s = step(state, d, default_return_column)
                started = started or s
        except RefError as e:
            yield ("error", e.kind)
            return
        if state is not None and started:
            state.initial = state.current.copy()
        yield ("state", state.snapshot() if state is not None else None)
